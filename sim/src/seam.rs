//! The libc seam: `open64/open/read/readv/pread64/lseek64/close/write/getrandom` defined in the
//! harness executable win over libc's at link time, so every file access `std` performs on behalf
//! of sqlgrep lands here. A thread that has a `World` installed is "inside the simulation": paths
//! under `/simfs/` are virtual append-only files, fd 1 is captured, `getrandom` serves scripted
//! bytes. Every other thread / path / descriptor goes straight to the kernel.
//!
//! Nothing in the pass-through path allocates or panics.

use std::cell::Cell;
use std::sync::atomic::{AtomicBool, Ordering};
use std::sync::Arc;

pub const SIMFS: &str = "/simfs/";

#[derive(Clone, Debug, PartialEq)]
pub enum Fault {
    None,
    Eintr,
    Eio,
    /// serve at most this many bytes (>=1)
    Short(usize),
}

/// What the scripted peers do at one seam event (open / lseek / read on a simulated file).
#[derive(Clone, Debug, PartialEq)]
pub struct Step {
    /// number of pending writer chunks that land before the call is served (usize::MAX = all)
    pub land: usize,
    /// fault for the call itself (reads only)
    pub fault: Fault,
}

#[derive(Clone, Debug, PartialEq)]
pub enum ReadMode {
    /// regular file: min(count, available)
    Bulk,
    /// never serve past the next '\n' (pipe / tty like)
    Line,
    /// at most k bytes per read
    Max(usize),
}

#[derive(Clone, Debug, PartialEq)]
pub enum Interrupt {
    /// clear `running` immediately before serving the seam event with this sequence number
    AtEvent(usize),
    /// clear `running` inside the j-th (0-based) println / write(1)
    AtPrint(usize),
}

#[derive(Clone, Debug, PartialEq)]
pub enum EvKind {
    Open,
    Read,
    Seek,
    Close,
    /// write(1, ..) with the captured bytes' length
    Write,
    /// Printer::println of the harness printer
    Print,
    GetRandom,
    /// an item handed out by FollowFileIterator / a line fed to the engine (harness level)
    Deliver,
    /// statx / fstat on a simulated file
    Stat,
    /// harness level: FollowFileExecutor::new has returned (start-up is over); the writer may land appends here
    Constructed,
}

#[derive(Clone, Debug)]
pub struct Event {
    pub kind: EvKind,
    /// index of the virtual file (Open/Read/Seek/Close)
    pub file: usize,
    /// requested count / seek offset
    pub req: i64,
    /// return value (bytes served, new offset, -errno)
    pub ret: i64,
    /// file offset before the call
    pub off: usize,
    /// bytes appended by the writer immediately before this call was served
    pub landed: usize,
    /// file length when the call was served
    pub len: usize,
    pub fault: Fault,
    pub interrupted: bool,
    /// payload for Print / Deliver
    pub text: Option<Vec<u8>>,
}

/// What ExecutionEngine::execute returned for one line (Engine mode); kept in the world so that the
/// outputs before a panic survive the unwinding.
#[derive(Clone, Debug, PartialEq)]
pub struct EngineOut {
    pub error: Option<String>,
    pub has_row: bool,
    pub columns: Vec<String>,
    /// Debug rendering of every Value, row by row
    pub rows: Vec<Vec<String>>,
    pub printed: Vec<String>,
    pub updated: bool,
    pub reached_limit: bool,
}

pub struct VFile {
    pub path: String,
    pub data: Vec<u8>,
    /// behaves like a pipe / FIFO / stdin: metadata reports a FIFO of size 0, seeking fails with ESPIPE
    pub pipe: bool,
    /// unreadable: every read fails with EIO (a directory given as input, a failing medium)
    pub unreadable: bool,
    /// removed from its directory while still open and still being written (rm, a rename over it, a temp file):
    /// metadata reports a link count of 0, everything else goes on as before
    pub unlinked: bool,
}

struct OpenFd {
    fd: i32,
    file: usize,
    /// index into `World::offsets`: descriptors created by dup / fcntl(F_DUPFD) share one file offset
    ofd: usize,
}

pub struct World {
    pub files: Vec<VFile>,
    fds: Vec<OpenFd>,
    offsets: Vec<usize>,
    /// (file index, bytes) in landing order
    pub pending: std::collections::VecDeque<(usize, Vec<u8>)>,
    pub steps: Vec<Step>,
    pub step_idx: usize,
    pub read_mode: ReadMode,
    /// follow mode: once nothing is pending, this many EOF reads are answered with 0, the next with EIO
    pub end_after_idle: Option<usize>,
    idle: usize,
    pub interrupt: Option<Interrupt>,
    pub running: Option<Arc<AtomicBool>>,
    pub keys: Vec<[u8; 16]>,
    pub key_idx: usize,
    /// serve real OS entropy instead of scripted keys
    pub real_entropy: bool,
    pub stdout: Vec<u8>,
    pub log: Vec<Event>,
    pub prints: usize,
    pub event_budget: usize,
    pub runaway: bool,
    pub interrupted_at: Option<usize>,
    pub terminating_eio: bool,
    pub panic_msg: Option<String>,
    pub enoent: usize,
    pub getrandom_calls: usize,
    pub hard_stop: Option<std::sync::mpsc::Sender<()>>,
    pub engine: Vec<EngineOut>,
    /// virtual clock (nanoseconds since the world started): every seam event costs `event_cost_ns`, an EOF
    /// poll additionally `poll_cost_ns` (a slow or descheduled follower / a pausing writer), sleeps advance it
    /// by their duration and return at once
    pub clock_ns: u64,
    pub event_cost_ns: u64,
    pub poll_cost_ns: u64,
    pub sleeps: u64,
    pub clock_reads: u64,
    pub stat_calls: u64,
    /// seam calls made by threads the system under simulation spawned itself
    pub foreign_thread_calls: u64,
}

impl World {
    pub fn new() -> World {
        World {
            files: Vec::new(),
            fds: Vec::new(),
            offsets: Vec::new(),
            pending: std::collections::VecDeque::new(),
            steps: Vec::new(),
            step_idx: 0,
            read_mode: ReadMode::Bulk,
            end_after_idle: None,
            idle: 0,
            interrupt: None,
            running: None,
            keys: Vec::new(),
            key_idx: 0,
            real_entropy: false,
            stdout: Vec::new(),
            log: Vec::new(),
            prints: 0,
            event_budget: 20_000,
            runaway: false,
            interrupted_at: None,
            terminating_eio: false,
            panic_msg: None,
            enoent: 0,
            getrandom_calls: 0,
            hard_stop: None,
            engine: Vec::new(),
            clock_ns: 0,
            event_cost_ns: 10_000,
            poll_cost_ns: 0,
            sleeps: 0,
            clock_reads: 0,
            stat_calls: 0,
            foreign_thread_calls: 0,
        }
    }

    pub fn add_file(&mut self, path: &str, data: Vec<u8>) -> usize {
        self.files.push(VFile { path: path.to_owned(), data, pipe: false, unreadable: false, unlinked: false });
        self.files.len() - 1
    }

    fn fd_slot(&self, fd: i32) -> Option<usize> {
        self.fds.iter().position(|f| f.fd == fd)
    }

    /// `is_print`: the event is a println / write(1). AtEvent positions count every logged event.
    fn fire_interrupt_if(&mut self, is_print: bool) -> bool {
        let seq = self.log.len();
        let fire = match &self.interrupt {
            Some(Interrupt::AtEvent(e)) => *e == seq,
            Some(Interrupt::AtPrint(j)) => is_print && *j == self.prints,
            None => false,
        };
        if fire {
            if let Some(r) = self.running.as_ref() {
                r.store(false, Ordering::SeqCst);
            }
            self.interrupted_at = Some(seq);
        }
        fire
    }

    /// Takes the next script step (for open/seek/read on simulated files) and lets the writer land.
    fn take_step(&mut self) -> (Fault, usize) {
        let step = if self.step_idx < self.steps.len() {
            self.steps[self.step_idx].clone()
        } else {
            Step { land: usize::MAX, fault: Fault::None }
        };
        self.step_idx += 1;
        self.clock_ns += self.event_cost_ns;
        let mut landed = 0usize;
        let mut n = step.land;
        while n > 0 {
            match self.pending.pop_front() {
                Some((file, bytes)) => {
                    landed += bytes.len();
                    self.files[file].data.extend_from_slice(&bytes);
                }
                None => break,
            }
            n -= 1;
        }
        (step.fault, landed)
    }

    fn over_budget(&mut self) -> bool {
        if self.log.len() >= self.event_budget {
            self.runaway = true;
        }
        if self.log.len() >= self.event_budget * 2 {
            // The SUT ignores errors: park this thread for good, after telling the controller.
            if let Some(tx) = self.hard_stop.take() {
                let _ = tx.send(());
            }
            // parked for good: give the world lock back so that the next world of this process can start
            unlock_world();
            loop {
                unsafe { libc::syscall(libc::SYS_pause); }
            }
        }
        self.runaway
    }

    fn on_open(&mut self, path: &str) -> Option<i32> {
        let idx = self.files.iter().position(|f| f.path == path);
        match idx {
            None => {
                self.enoent += 1;
                unsafe { *libc::__errno_location() = libc::ENOENT; }
                Some(-1)
            }
            Some(file) => {
                let interrupted = self.fire_interrupt_if(false);
                let (_, landed) = self.take_step();
                let fd = unsafe {
                    libc::syscall(libc::SYS_openat, libc::AT_FDCWD, b"/dev/null\0".as_ptr(), libc::O_RDONLY | libc::O_CLOEXEC, 0) as i32
                };
                if fd < 0 {
                    return Some(-1);
                }
                self.offsets.push(0);
                self.fds.push(OpenFd { fd, file, ofd: self.offsets.len() - 1 });
                let len = self.files[file].data.len();
                self.log.push(Event { kind: EvKind::Open, file, req: 0, ret: fd as i64, off: 0, landed, len, fault: Fault::None, interrupted, text: None });
                Some(fd)
            }
        }
    }

    fn on_read(&mut self, fd: i32, buf: *mut u8, count: usize, at: Option<usize>) -> Option<isize> {
        let slot = self.fd_slot(fd)?;
        let file = self.fds[slot].file;
        if self.over_budget() {
            unsafe { *libc::__errno_location() = libc::EIO; }
            return Some(-1);
        }
        let interrupted = self.fire_interrupt_if(false);
        let (fault, landed) = self.take_step();
        let fault = if self.files[file].unreadable { Fault::Eio } else { fault };
        let off = at.unwrap_or(self.offsets[self.fds[slot].ofd]);
        let len = self.files[file].data.len();
        let mut ev = Event { kind: EvKind::Read, file, req: count as i64, ret: 0, off, landed, len, fault: fault.clone(), interrupted, text: None };
        match fault {
            Fault::Eintr => {
                ev.ret = -(libc::EINTR as i64);
                self.log.push(ev);
                unsafe { *libc::__errno_location() = libc::EINTR; }
                return Some(-1);
            }
            Fault::Eio => {
                ev.ret = -(libc::EIO as i64);
                self.log.push(ev);
                unsafe { *libc::__errno_location() = libc::EIO; }
                return Some(-1);
            }
            _ => {}
        }
        let avail = len.saturating_sub(off);
        if avail == 0 || count == 0 {
            self.clock_ns += self.poll_cost_ns;
            if count != 0 && self.pending.is_empty() {
                if let Some(limit) = self.end_after_idle {
                    if self.idle >= limit {
                        self.terminating_eio = true;
                        ev.ret = -(libc::EIO as i64);
                        ev.fault = Fault::Eio;
                        self.log.push(ev);
                        unsafe { *libc::__errno_location() = libc::EIO; }
                        return Some(-1);
                    }
                    self.idle += 1;
                }
            }
            self.log.push(ev);
            return Some(0);
        }
        let mut n = count.min(avail);
        match self.read_mode {
            ReadMode::Bulk => {}
            ReadMode::Line => {
                let data = &self.files[file].data[off..off + n];
                if let Some(p) = data.iter().position(|b| *b == b'\n') {
                    n = p + 1;
                }
            }
            ReadMode::Max(k) => {
                n = n.min(k.max(1));
            }
        }
        if let Fault::Short(k) = fault {
            n = n.min(k.max(1));
        }
        unsafe {
            std::ptr::copy_nonoverlapping(self.files[file].data.as_ptr().add(off), buf, n);
        }
        if at.is_none() {
            let ofd = self.fds[slot].ofd;
            self.offsets[ofd] = off + n;
        }
        ev.ret = n as i64;
        self.log.push(ev);
        Some(n as isize)
    }

    fn on_seek(&mut self, fd: i32, offset: i64, whence: i32) -> Option<i64> {
        let slot = self.fd_slot(fd)?;
        let file = self.fds[slot].file;
        if self.files[file].pipe {
            unsafe { *libc::__errno_location() = libc::ESPIPE; }
            return Some(-1);
        }
        let interrupted = self.fire_interrupt_if(false);
        let (_, landed) = self.take_step();
        let len = self.files[file].data.len();
        let cur = self.offsets[self.fds[slot].ofd];
        let base: i64 = match whence {
            libc::SEEK_SET => 0,
            libc::SEEK_CUR => cur as i64,
            libc::SEEK_END => len as i64,
            _ => {
                unsafe { *libc::__errno_location() = libc::EINVAL; }
                return Some(-1);
            }
        };
        let new = base + offset;
        if new < 0 {
            unsafe { *libc::__errno_location() = libc::EINVAL; }
            return Some(-1);
        }
        let ofd = self.fds[slot].ofd;
        self.offsets[ofd] = new as usize;
        self.log.push(Event { kind: EvKind::Seek, file, req: offset, ret: new, off: cur, landed, len, fault: Fault::None, interrupted, text: Some(vec![whence as u8]) });
        Some(new)
    }

    /// dup / fcntl(F_DUPFD*): a new descriptor for the same open file description (shared offset)
    fn on_dup(&mut self, fd: i32, cloexec: bool) -> Option<i32> {
        let slot = self.fd_slot(fd)?;
        let (file, ofd) = (self.fds[slot].file, self.fds[slot].ofd);
        let new_fd = unsafe { libc::syscall(libc::SYS_fcntl, fd, if cloexec { libc::F_DUPFD_CLOEXEC } else { libc::F_DUPFD }, 3) as i32 };
        if new_fd >= 0 {
            self.fds.push(OpenFd { fd: new_fd, file, ofd });
        }
        Some(new_fd)
    }

    /// metadata of a simulated file: a script-consuming event like open/seek/read (the writer may land an
    /// append right before the size is sampled)
    fn on_stat(&mut self, file: usize) {
        if self.over_budget() {
            return;
        }
        let interrupted = self.fire_interrupt_if(false);
        let (_, landed) = self.take_step();
        let len = self.files[file].data.len();
        self.stat_calls += 1;
        self.log.push(Event { kind: EvKind::Stat, file, req: 0, ret: len as i64, off: 0, landed, len, fault: Fault::None, interrupted, text: None });
    }

    fn on_close(&mut self, fd: i32) -> Option<()> {
        let slot = self.fd_slot(fd)?;
        let f = self.fds.remove(slot);
        let len = self.files[f.file].data.len();
        self.log.push(Event { kind: EvKind::Close, file: f.file, req: 0, ret: 0, off: self.offsets[f.ofd], landed: 0, len, fault: Fault::None, interrupted: false, text: None });
        None // the placeholder descriptor still has to be closed for real
    }

    fn on_write1(&mut self, buf: *const u8, count: usize) -> isize {
        let interrupted = self.fire_interrupt_if(true);
        self.prints += 1;
        let bytes = unsafe { std::slice::from_raw_parts(buf, count) };
        if !self.runaway && self.stdout.len() < (64 << 20) {
            self.stdout.extend_from_slice(bytes);
        }
        if self.log.len() < self.event_budget * 2 {
            self.log.push(Event { kind: EvKind::Write, file: 0, req: count as i64, ret: count as i64, off: 0, landed: 0, len: self.stdout.len(), fault: Fault::None, interrupted, text: None });
        }
        count as isize
    }

    /// Printer seam of the harness printer (batch mode).
    pub fn on_print(&mut self, line: &str) {
        let interrupted = self.fire_interrupt_if(true);
        self.prints += 1;
        self.log.push(Event { kind: EvKind::Print, file: 0, req: 0, ret: 0, off: 0, landed: 0, len: 0, fault: Fault::None, interrupted, text: Some(line.as_bytes().to_vec()) });
    }

    /// Harness-level scheduling point between the executor's construction and its execute() call.
    pub fn on_constructed(&mut self, land: usize) {
        let interrupted = self.fire_interrupt_if(false);
        let mut landed = 0usize;
        let mut n = land;
        while n > 0 {
            match self.pending.pop_front() {
                Some((file, bytes)) => {
                    landed += bytes.len();
                    self.files[file].data.extend_from_slice(&bytes);
                }
                None => break,
            }
            n -= 1;
        }
        let len = self.files.first().map(|f| f.data.len()).unwrap_or(0);
        self.log.push(Event { kind: EvKind::Constructed, file: 0, req: 0, ret: 0, off: 0, landed, len, fault: Fault::None, interrupted, text: None });
    }

    pub fn on_deliver(&mut self, item: &[u8]) {
        let interrupted = self.fire_interrupt_if(false);
        self.log.push(Event { kind: EvKind::Deliver, file: 0, req: 0, ret: 0, off: 0, landed: 0, len: 0, fault: Fault::None, interrupted, text: Some(item.to_vec()) });
    }

    fn on_getrandom(&mut self, buf: *mut u8, n: usize) -> Option<isize> {
        if self.real_entropy {
            return None;
        }
        self.getrandom_calls += 1;
        let key = if self.key_idx < self.keys.len() { self.keys[self.key_idx] } else { [0x5au8; 16] };
        self.key_idx += 1;
        for i in 0..n {
            unsafe { *buf.add(i) = key[i % 16]; }
        }
        let interrupted = self.fire_interrupt_if(false);
        self.log.push(Event { kind: EvKind::GetRandom, file: 0, req: n as i64, ret: n as i64, off: 0, landed: 0, len: 0, fault: Fault::None, interrupted, text: None });
        Some(n as isize)
    }
}

thread_local! {
    static WORLD: Cell<*mut World> = const { Cell::new(std::ptr::null_mut()) };
    static IN_SEAM: Cell<bool> = const { Cell::new(false) };
    /// threads of the harness itself (orchestrator / worker main thread) never enter a world
    static HARNESS_THREAD: Cell<bool> = const { Cell::new(false) };
}

/// The world of the process' current SUT thread. Threads that the system under simulation spawns itself have
/// no world of their own: their calls are served by this one, under `WORLD_LOCK` (their scheduling stays the
/// operating system's, so a run with such threads is not exactly replayable - but their I/O, entropy and clock
/// stay inside the simulation instead of silently reaching the real kernel).
static GLOBAL_WORLD: std::sync::atomic::AtomicPtr<World> = std::sync::atomic::AtomicPtr::new(std::ptr::null_mut());
static WORLD_LOCK: AtomicBool = AtomicBool::new(false);

/// Global counters used by the start-up self check.
pub static SEAM_READS: std::sync::atomic::AtomicUsize = std::sync::atomic::AtomicUsize::new(0);
pub static SEAM_READY: AtomicBool = AtomicBool::new(false);

pub fn mark_harness_thread() {
    HARNESS_THREAD.with(|h| h.set(true));
}

fn lock_world() {
    while WORLD_LOCK.swap(true, Ordering::Acquire) {
        std::hint::spin_loop();
    }
}

fn unlock_world() {
    WORLD_LOCK.store(false, Ordering::Release);
}

pub fn install(world: Box<World>) {
    WORLD.with(|w| {
        assert!(w.get().is_null(), "world already installed on this thread");
        let p = Box::into_raw(world);
        w.set(p);
        lock_world();
        GLOBAL_WORLD.store(p, Ordering::SeqCst);
        unlock_world();
    });
}

pub fn uninstall() -> Box<World> {
    WORLD.with(|w| {
        let p = w.replace(std::ptr::null_mut());
        assert!(!p.is_null());
        lock_world();
        if GLOBAL_WORLD.load(Ordering::SeqCst) == p {
            GLOBAL_WORLD.store(std::ptr::null_mut(), Ordering::SeqCst);
        }
        unlock_world();
        unsafe { Box::from_raw(p) }
    })
}

pub fn has_world() -> bool {
    WORLD.try_with(|w| !w.get().is_null()).unwrap_or(false)
}

/// Access to the installed world from harness code running on the SUT thread.
pub fn with_world<R>(f: impl FnOnce(&mut World) -> R) -> Option<R> {
    enter().map(|w| {
        let r = f(w);
        exit();
        r
    })
}

#[inline]
fn enter() -> Option<&'static mut World> {
    let own = WORLD.try_with(|w| w.get()).unwrap_or(std::ptr::null_mut());
    let foreign = own.is_null();
    if foreign {
        if HARNESS_THREAD.try_with(|h| h.get()).unwrap_or(true) {
            return None;
        }
        if GLOBAL_WORLD.load(Ordering::SeqCst).is_null() {
            return None;
        }
    }
    let busy = IN_SEAM.try_with(|b| b.replace(true)).unwrap_or(true);
    if busy {
        return None;
    }
    lock_world();
    let p = if foreign { GLOBAL_WORLD.load(Ordering::SeqCst) } else { own };
    if p.is_null() {
        unlock_world();
        let _ = IN_SEAM.try_with(|b| b.set(false));
        return None;
    }
    let world = unsafe { &mut *p };
    if foreign {
        world.foreign_thread_calls += 1;
    }
    Some(world)
}

#[inline]
fn exit() {
    unlock_world();
    let _ = IN_SEAM.try_with(|b| b.set(false));
}

unsafe fn cstr_is_simfs(path: *const libc::c_char) -> bool {
    let pre = SIMFS.as_bytes();
    for (i, b) in pre.iter().enumerate() {
        if *path.add(i) as u8 != *b {
            return false;
        }
    }
    true
}

unsafe fn do_open(path: *const libc::c_char, flags: libc::c_int, mode: libc::mode_t) -> libc::c_int {
    if !path.is_null() && cstr_is_simfs(path) {
        if let Some(w) = enter() {
            let s = std::ffi::CStr::from_ptr(path).to_string_lossy().into_owned();
            let r = w.on_open(&s);
            exit();
            if let Some(r) = r {
                return r;
            }
        } else {
            // a simulated path without a world: never reaches the real file system
            *libc::__errno_location() = libc::ENOENT;
            return -1;
        }
    }
    libc::syscall(libc::SYS_openat, libc::AT_FDCWD, path, flags, mode as libc::c_uint) as libc::c_int
}

#[no_mangle]
pub unsafe extern "C" fn open64(path: *const libc::c_char, flags: libc::c_int, mode: libc::mode_t) -> libc::c_int {
    do_open(path, flags, mode)
}

#[no_mangle]
pub unsafe extern "C" fn open(path: *const libc::c_char, flags: libc::c_int, mode: libc::mode_t) -> libc::c_int {
    do_open(path, flags, mode)
}

#[no_mangle]
pub unsafe extern "C" fn read(fd: libc::c_int, buf: *mut libc::c_void, count: libc::size_t) -> libc::ssize_t {
    if let Some(w) = enter() {
        let r = w.on_read(fd, buf as *mut u8, count, None);
        exit();
        if let Some(r) = r {
            SEAM_READS.fetch_add(1, Ordering::Relaxed);
            return r;
        }
    }
    libc::syscall(libc::SYS_read, fd, buf, count) as libc::ssize_t
}

#[no_mangle]
pub unsafe extern "C" fn pread64(fd: libc::c_int, buf: *mut libc::c_void, count: libc::size_t, offset: i64) -> libc::ssize_t {
    if let Some(w) = enter() {
        let r = if offset >= 0 { w.on_read(fd, buf as *mut u8, count, Some(offset as usize)) } else { None };
        exit();
        if let Some(r) = r {
            return r;
        }
    }
    libc::syscall(libc::SYS_pread64, fd, buf, count, offset) as libc::ssize_t
}

#[no_mangle]
pub unsafe extern "C" fn readv(fd: libc::c_int, iov: *const libc::iovec, iovcnt: libc::c_int) -> libc::ssize_t {
    if let Some(w) = enter() {
        // serve into the first non-empty buffer only (a legal short read)
        let mut r = None;
        if w.fd_slot(fd).is_some() {
            let mut served = false;
            for i in 0..iovcnt.max(0) as usize {
                let v = &*iov.add(i);
                if v.iov_len > 0 {
                    r = w.on_read(fd, v.iov_base as *mut u8, v.iov_len, None);
                    served = true;
                    break;
                }
            }
            if !served {
                r = Some(0);
            }
        }
        exit();
        if let Some(r) = r {
            return r;
        }
    }
    libc::syscall(libc::SYS_readv, fd, iov, iovcnt) as libc::ssize_t
}

#[no_mangle]
pub unsafe extern "C" fn lseek64(fd: libc::c_int, offset: i64, whence: libc::c_int) -> i64 {
    if let Some(w) = enter() {
        let r = w.on_seek(fd, offset, whence);
        exit();
        if let Some(r) = r {
            return r;
        }
    }
    libc::syscall(libc::SYS_lseek, fd, offset, whence) as i64
}

#[no_mangle]
pub unsafe extern "C" fn lseek(fd: libc::c_int, offset: i64, whence: libc::c_int) -> i64 {
    lseek64(fd, offset, whence)
}

#[no_mangle]
pub unsafe extern "C" fn close(fd: libc::c_int) -> libc::c_int {
    if let Some(w) = enter() {
        let _ = w.on_close(fd);
        exit();
    }
    libc::syscall(libc::SYS_close, fd) as libc::c_int
}

#[no_mangle]
pub unsafe extern "C" fn write(fd: libc::c_int, buf: *const libc::c_void, count: libc::size_t) -> libc::ssize_t {
    if fd == 1 {
        if let Some(w) = enter() {
            let r = w.on_write1(buf as *const u8, count);
            exit();
            return r;
        }
    }
    libc::syscall(libc::SYS_write, fd, buf, count) as libc::ssize_t
}

#[no_mangle]
pub unsafe extern "C" fn getrandom(buf: *mut libc::c_void, n: libc::size_t, flags: libc::c_uint) -> libc::ssize_t {
    if let Some(w) = enter() {
        let r = w.on_getrandom(buf as *mut u8, n);
        exit();
        if let Some(r) = r {
            return r;
        }
    }
    libc::syscall(libc::SYS_getrandom, buf, n, flags) as libc::ssize_t
}

#[no_mangle]
pub unsafe extern "C" fn writev(fd: libc::c_int, iov: *const libc::iovec, iovcnt: libc::c_int) -> libc::ssize_t {
    if fd == 1 {
        if let Some(w) = enter() {
            let mut total = 0isize;
            for i in 0..iovcnt.max(0) as usize {
                let v = &*iov.add(i);
                if v.iov_len > 0 {
                    total += w.on_write1(v.iov_base as *const u8, v.iov_len);
                }
            }
            exit();
            return total;
        }
    }
    libc::syscall(libc::SYS_writev, fd, iov, iovcnt) as libc::ssize_t
}

/// Base of the virtual wall clock (2025-01-01T00:00:00Z) so that REALTIME readings look sane.
const VIRTUAL_EPOCH_S: i64 = 1_735_689_600;

#[no_mangle]
pub unsafe extern "C" fn clock_gettime(clock: libc::clockid_t, ts: *mut libc::timespec) -> libc::c_int {
    if !ts.is_null() {
        if let Some(w) = enter() {
            w.clock_reads += 1;
            let ns = w.clock_ns;
            exit();
            let base = if clock == libc::CLOCK_REALTIME || clock == libc::CLOCK_REALTIME_COARSE { VIRTUAL_EPOCH_S } else { 1_000 };
            (*ts).tv_sec = base + (ns / 1_000_000_000) as i64;
            (*ts).tv_nsec = (ns % 1_000_000_000) as i64;
            return 0;
        }
    }
    libc::syscall(libc::SYS_clock_gettime, clock, ts) as libc::c_int
}

unsafe fn virtual_sleep(req: *const libc::timespec) -> bool {
    if req.is_null() {
        return false;
    }
    if let Some(w) = enter() {
        let d = (*req).tv_sec.max(0) as u64 * 1_000_000_000 + (*req).tv_nsec.max(0) as u64;
        w.clock_ns += d;
        w.sleeps += 1;
        exit();
        return true;
    }
    false
}

#[no_mangle]
pub unsafe extern "C" fn nanosleep(req: *const libc::timespec, rem: *mut libc::timespec) -> libc::c_int {
    if virtual_sleep(req) {
        return 0;
    }
    libc::syscall(libc::SYS_nanosleep, req, rem) as libc::c_int
}

#[no_mangle]
pub unsafe extern "C" fn clock_nanosleep(clock: libc::clockid_t, flags: libc::c_int, req: *const libc::timespec, rem: *mut libc::timespec) -> libc::c_int {
    if flags == 0 && virtual_sleep(req) {
        return 0;
    }
    // clock_nanosleep returns the error number instead of setting errno
    let r = libc::syscall(libc::SYS_clock_nanosleep, clock, flags, req, rem);
    if r < 0 { *libc::__errno_location() } else { 0 }
}

// ---------------------------------------------------------------------------------------------------
// file metadata: size = current length, regular file, modification time derived from the content (a
// changed file has another mtime, an unchanged one the same), so that code which keys a cache on
// (path, length, mtime) behaves under simulation as it would on a real file system.

fn virtual_mtime(data: &[u8]) -> i64 {
    let mut h: u64 = 0xcbf29ce484222325;
    for b in data {
        h ^= *b as u64;
        h = h.wrapping_mul(0x100000001b3);
    }
    1_700_000_000 + (h % 30_000_000) as i64
}

unsafe fn fill_statx_file(buf: *mut libc::statx, f: &VFile, ino: u64) {
    fill_statx(buf, &f.data, ino);
    if f.unlinked {
        (*buf).stx_nlink = 0;
    }
    if f.pipe {
        (*buf).stx_mode = (libc::S_IFIFO | 0o600) as u16;
        (*buf).stx_size = 0;
        (*buf).stx_blocks = 0;
    }
}

unsafe fn fill_statx(buf: *mut libc::statx, data: &[u8], ino: u64) {
    std::ptr::write_bytes(buf as *mut u8, 0, std::mem::size_of::<libc::statx>());
    (*buf).stx_mask = libc::STATX_BASIC_STATS;
    (*buf).stx_blksize = 4096;
    (*buf).stx_nlink = 1;
    (*buf).stx_mode = (libc::S_IFREG | 0o644) as u16;
    (*buf).stx_ino = ino;
    (*buf).stx_size = data.len() as u64;
    (*buf).stx_blocks = (data.len() as u64 + 511) / 512;
    let m = virtual_mtime(data);
    (*buf).stx_mtime.tv_sec = m;
    (*buf).stx_ctime.tv_sec = m;
    (*buf).stx_atime.tv_sec = m;
}

#[no_mangle]
pub unsafe extern "C" fn statx(dirfd: libc::c_int, path: *const libc::c_char, flags: libc::c_int, mask: libc::c_uint, buf: *mut libc::statx) -> libc::c_int {
    if !buf.is_null() {
        let empty_path = path.is_null() || *path == 0;
        let sim_path = !path.is_null() && !empty_path && cstr_is_simfs(path);
        if empty_path || sim_path {
            if let Some(w) = enter() {
                let mut handled = None;
                if empty_path {
                    if let Some(slot) = w.fd_slot(dirfd) {
                        let file = w.fds[slot].file;
                        w.on_stat(file);
                        fill_statx_file(buf, &w.files[file], 1000 + file as u64);
                        handled = Some(0);
                    }
                } else {
                    let p = std::ffi::CStr::from_ptr(path).to_string_lossy().into_owned();
                    match w.files.iter().position(|f| f.path == p) {
                        Some(file) => {
                            w.on_stat(file);
                            fill_statx_file(buf, &w.files[file], 1000 + file as u64);
                            handled = Some(0);
                        }
                        None => {
                            *libc::__errno_location() = libc::ENOENT;
                            handled = Some(-1);
                        }
                    }
                }
                exit();
                if let Some(r) = handled {
                    return r;
                }
            }
        }
    }
    libc::syscall(libc::SYS_statx, dirfd, path, flags, mask, buf) as libc::c_int
}

#[no_mangle]
pub unsafe extern "C" fn realpath(path: *const libc::c_char, resolved: *mut libc::c_char) -> *mut libc::c_char {
    if !path.is_null() && cstr_is_simfs(path) {
        if let Some(w) = enter() {
            let p = std::ffi::CStr::from_ptr(path).to_bytes().to_vec();
            let exists = w.files.iter().any(|f| f.path.as_bytes() == &p[..]);
            exit();
            if !exists {
                *libc::__errno_location() = libc::ENOENT;
                return std::ptr::null_mut();
            }
            let out = if resolved.is_null() { libc::malloc(p.len() + 1) as *mut libc::c_char } else { resolved };
            if out.is_null() {
                return out;
            }
            std::ptr::copy_nonoverlapping(p.as_ptr() as *const libc::c_char, out, p.len());
            *out.add(p.len()) = 0;
            return out;
        }
        *libc::__errno_location() = libc::ENOENT;
        return std::ptr::null_mut();
    }
    // everything else: the C library's own implementation
    type RealpathFn = unsafe extern "C" fn(*const libc::c_char, *mut libc::c_char) -> *mut libc::c_char;
    static REAL: std::sync::atomic::AtomicUsize = std::sync::atomic::AtomicUsize::new(0);
    let mut f = REAL.load(Ordering::Relaxed);
    if f == 0 {
        f = libc::dlsym(libc::RTLD_NEXT, b"realpath\0".as_ptr() as *const libc::c_char) as usize;
        REAL.store(f, Ordering::Relaxed);
    }
    if f == 0 {
        *libc::__errno_location() = libc::ENOSYS;
        return std::ptr::null_mut();
    }
    let func: RealpathFn = std::mem::transmute(f);
    func(path, resolved)
}

// ---------------------------------------------------------------------------------------------------
// descriptor duplication (File::try_clone uses fcntl(F_DUPFD_CLOEXEC)): the copy must stay inside the simulation

#[no_mangle]
pub unsafe extern "C" fn fcntl(fd: libc::c_int, cmd: libc::c_int, arg: usize) -> libc::c_int {
    if cmd == libc::F_DUPFD || cmd == libc::F_DUPFD_CLOEXEC {
        if let Some(w) = enter() {
            let r = w.on_dup(fd, cmd == libc::F_DUPFD_CLOEXEC);
            exit();
            if let Some(r) = r {
                return r;
            }
        }
    }
    libc::syscall(libc::SYS_fcntl, fd, cmd, arg) as libc::c_int
}

#[no_mangle]
pub unsafe extern "C" fn fcntl64(fd: libc::c_int, cmd: libc::c_int, arg: usize) -> libc::c_int {
    fcntl(fd, cmd, arg)
}

#[no_mangle]
pub unsafe extern "C" fn dup(fd: libc::c_int) -> libc::c_int {
    if let Some(w) = enter() {
        let r = w.on_dup(fd, false);
        exit();
        if let Some(r) = r {
            return r;
        }
    }
    libc::syscall(libc::SYS_dup, fd) as libc::c_int
}
