//! Scenario helpers shared by the property checks.

use serde_json::{json, Value as J};

use crate::prop::Outcome;
use crate::sqlgen::JOINED_PATH;
use crate::world::{run_world, Mode, Status, WorldResult, WorldSpec};

pub fn main_path(i: usize) -> String {
    format!("/simfs/main{}.log", i)
}

/// Batch world over `files` (+ optional joined file).
pub fn batch_spec(defs: &str, stmt: &str, files: &[Vec<u8>], joined: Option<&[u8]>) -> WorldSpec {
    let mut spec = WorldSpec::new(defs, stmt, Mode::Batch);
    for (i, f) in files.iter().enumerate() {
        spec.files.push((main_path(i), f.clone()));
    }
    if let Some(j) = joined {
        spec.extra_files.push((JOINED_PATH.to_owned(), j.to_vec()));
    }
    let total: usize = files.iter().map(|f| f.len()).sum::<usize>() + joined.map(|j| j.len()).unwrap_or(0);
    spec.event_budget = 2000 + 3 * total;
    spec
}

/// Printed records without the blank separator lines.
pub fn records(res: &WorldResult) -> Vec<String> {
    res.printed().into_iter().filter(|l| !l.is_empty()).collect()
}

pub fn lines_to_file(lines: &[Vec<u8>], final_newline: bool) -> Vec<u8> {
    crate::gen::join_lines(lines, final_newline)
}

pub fn status_label(s: &Status) -> String {
    match s {
        Status::Ok => "Ok".to_owned(),
        Status::Err(e) => format!("Err({})", e),
        Status::Panic(p) => format!("Panic({})", p.chars().take(160).collect::<String>()),
        Status::Setup(e) => format!("Setup({})", e),
    }
}

/// Run a world and account for it.
pub fn run(out: &mut Outcome, label: &str, spec: &WorldSpec, want_trace: bool) -> WorldResult {
    let res = run_world(spec);
    out.absorb(label, &res, want_trace);
    res
}

/// Standard handling of runs that did not behave like a terminating query at all.
/// Returns false when the result must not be interpreted further.
pub fn usable(out: &mut Outcome, prefix: &str, res: &WorldResult, features: &J) -> bool {
    if let Status::Setup(err) = &res.status {
        out.invalid = Some(err.clone());
        return false;
    }
    if !res.terminated() {
        out.violate(&format!("{}.no_termination", prefix), format!("still issuing seam calls after {} events (hung={})", res.log.len(), res.hung), features.clone());
        return false;
    }
    true
}

/// Two worlds agree "as observed by the user": same status class and same records.
pub fn same_observation(a: &WorldResult, b: &WorldResult) -> bool {
    status_label(&a.status) == status_label(&b.status) && records(a) == records(b)
}

pub fn obs(res: &WorldResult) -> J {
    json!({"status": status_label(&res.status), "records": records(res), "total_lines": res.total_lines})
}

pub fn show(lines: &[String]) -> String {
    let mut s = format!("{:?}", lines.iter().take(12).collect::<Vec<_>>());
    if lines.len() > 12 {
        s.push_str(&format!(" (+{} more)", lines.len() - 12));
    }
    s
}
