//! sqlgrep deterministic simulation harness.
//!
//!   sim run <ID> quick|thorough      orchestrate a batch, write evidence, print verdict lines
//!   sim worker ...                   (internal) one worker process
//!   sim replay <ID> <file>           re-run one recorded case in a fresh process
//!   sim case <ID> <index>            print the generated case #index and what the check says
//!   sim selftest                     seam self-check + determinism check
//!
//! exit 0 = property held on everything explored, 1 = violation, 2 = harness error.

mod follow;
mod gen;
mod prop;
mod props;
mod rng;
mod scen;
mod seam;
mod shrink;
mod sqlgen;
mod util;
mod world;

use std::collections::{BTreeMap, BTreeSet};
use std::io::Write;
use std::path::{Path, PathBuf};
use std::process::{Command, Stdio};
use std::time::Instant;

use serde_json::{json, Value as J};

use prop::{Outcome, Property};

pub const DEFAULT_SEED: u64 = 20260925;

fn properties() -> Vec<Box<dyn Property>> {
    props::all()
}

fn find_prop(id: &str) -> Box<dyn Property> {
    for p in properties() {
        if p.id() == id {
            return p;
        }
    }
    eprintln!("unknown property {}", id);
    std::process::exit(2);
}

fn verif_dir() -> PathBuf {
    if let Ok(d) = std::env::var("VERIF_DIR") {
        return PathBuf::from(d);
    }
    let exe = std::env::current_exe().unwrap_or_default();
    // <verif>/sim/target/release/sim
    exe.parent().and_then(|p| p.parent()).and_then(|p| p.parent()).and_then(|p| p.parent()).map(|p| p.to_path_buf()).unwrap_or_else(|| PathBuf::from("/verif"))
}

fn env_seed() -> u64 {
    std::env::var("VERIF_SEED").ok().and_then(|s| s.trim().parse::<u64>().ok()).unwrap_or(DEFAULT_SEED)
}

// ---------------------------------------------------------------------------------------------
// seam self check

fn seam_selfcheck() -> Result<(), String> {
    if std::env::var("VERIF_SKIP_SELFCHECK").is_ok() {
        return Ok(());
    }
    use world::{run_world, Mode, WorldSpec};
    // plain std operations (no sqlgrep code): every one of them must arrive at the seam
    let mut spec = WorldSpec::new("", "", Mode::SeamProbe);
    spec.files.push((follow::FOLLOW_PATH.to_owned(), b"first\nsecond line\n".to_vec()));
    spec.appends = vec![b"third\n".to_vec()];
    let quiet = seam::Step { land: 0, fault: seam::Fault::None };
    spec.steps = vec![quiet.clone(), quiet.clone(), quiet.clone(), quiet];
    spec.keys = vec![[1u8; 16]];
    let res = run_world(&spec);
    let count = |k: seam::EvKind| res.log.iter().filter(|e| e.kind == k).count();
    if count(seam::EvKind::Open) != 2 {
        return Err(format!("expected 2 open events through the seam (one from a spawned thread), saw {}", count(seam::EvKind::Open)));
    }
    if res.foreign_thread_calls == 0 {
        return Err("calls of a thread spawned inside the simulation did not reach the seam".to_owned());
    }
    if count(seam::EvKind::Seek) < 2 {
        return Err(format!("expected >= 2 lseek events through the seam, saw {}", count(seam::EvKind::Seek)));
    }
    if count(seam::EvKind::Read) < 3 {
        return Err("reads did not go through the seam".to_owned());
    }
    if count(seam::EvKind::Close) != 3 {
        return Err("close did not go through the seam".to_owned());
    }
    if res.getrandom_calls != 1 {
        return Err(format!("expected exactly 1 getrandom call for the thread's RandomState, saw {}", res.getrandom_calls));
    }
    if res.delivered() != vec![format!("meta 18 {} dup=true", follow::FOLLOW_PATH).into_bytes(), b"first\n".to_vec(), b"second line\nthird\n".to_vec(), b"thread read 24".to_vec(), b"slept 1".to_vec()] {
        return Err(format!("std reads / clock through the seam returned {:?}", res.delivered().iter().map(|d| String::from_utf8_lossy(d).into_owned()).collect::<Vec<_>>()));
    }
    if res.sleeps != 1 {
        return Err(format!("thread::sleep did not go through the clock seam ({} virtual sleeps)", res.sleeps));
    }
    if res.stdout != b"probe\n" {
        return Err(format!("stdout capture saw {:?}", String::from_utf8_lossy(&res.stdout)));
    }
    Ok(())
}

// ---------------------------------------------------------------------------------------------
// worker

fn summarize_outcome(o: &Outcome) -> J {
    json!({
        "violation": o.violation.as_ref().map(|v| json!({"class": v.class, "detail": v.detail})),
        "invalid": o.invalid,
        "worlds_executed": o.execs,
        "seam_events": o.events,
        "nontrivial_runs": o.nontrivial.len(),
    })
}

fn worker_main(args: &[String]) -> i32 {
    // worker <ID> <seed> <thorough 0/1> <worker idx> <workers> <runs> <outfile>
    let prop = find_prop(&args[0]);
    let seed: u64 = args[1].parse().unwrap();
    let thorough = args[2] == "1";
    let widx: u64 = args[3].parse().unwrap();
    let workers: u64 = args[4].parse().unwrap();
    let runs: u64 = args[5].parse().unwrap();
    let outfile = &args[6];
    world::install_panic_hook();
    world::warm_up();

    let mut cases = 0u64;
    let mut hung_worlds = 0u32;
    let mut execs = 0u64;
    let mut events = 0u64;
    let mut sim_ns = 0u64;
    let mut invalid = 0u64;
    let mut invalid_sample: Option<String> = None;
    let mut invalid_reasons: BTreeMap<String, u64> = BTreeMap::new();
    let mut faults: BTreeMap<String, u64> = BTreeMap::new();
    let mut probes: BTreeMap<String, u64> = BTreeMap::new();
    let mut nontrivial: BTreeSet<u64> = BTreeSet::new();
    let mut violations: Vec<J> = Vec::new();
    let mut violation_counts: BTreeMap<String, u64> = BTreeMap::new();
    let mut samples: Vec<J> = Vec::new();
    let mut digest: u64 = 0;
    let want_digest = std::env::var("VERIF_DIGEST").is_ok();
    let mut digests: Vec<J> = Vec::new();

    // progress marker: if the SUT takes the whole process down (abort on allocation failure, stack overflow,
    // process::exit), the orchestrator can still name the case that did it
    let cur_path = format!("{}.cur", outfile);
    let cur_file = std::fs::OpenOptions::new().create(true).write(true).truncate(true).open(&cur_path).ok();
    let mut index = widx;
    while index < runs {
        if let Some(f) = &cur_file {
            use std::os::unix::fs::FileExt;
            let _ = f.write_at(format!("{:<20}", index).as_bytes(), 0);
        }
        let mut rng = rng::Rng::new(rng::mix(seed, prop.id(), index));
        let case = prop.generate(&mut rng, thorough);
        let outcome = prop.check(&case, false);
        cases += 1;
        execs += outcome.execs;
        events += outcome.events;
        sim_ns += outcome.sim_ns;
        for (k, v) in &outcome.faults {
            *faults.entry(k.clone()).or_insert(0) += v;
        }
        for (k, v) in &outcome.probes {
            *probes.entry(k.clone()).or_insert(0) += v;
        }
        if nontrivial.len() < 3_000_000 {
            for h in &outcome.nontrivial {
                nontrivial.insert(*h);
            }
        }
        let mut d = util::fnv(serde_json::to_string(&case).unwrap().as_bytes());
        d = util::fnv_mix(d, outcome.events);
        d = util::fnv_mix(d, outcome.execs);
        for h in &outcome.nontrivial {
            d = util::fnv_mix(d, *h);
        }
        if let Some(v) = &outcome.violation {
            d = util::fnv_mix(d, util::fnv(v.class.as_bytes()));
            d = util::fnv_mix(d, util::fnv(v.detail.as_bytes()));
        }
        digest = util::fnv_mix(digest, d);
        if want_digest {
            digests.push(json!([index, format!("{:016x}", d)]));
        }
        if let Some(msg) = &outcome.invalid {
            invalid += 1;
            *invalid_reasons.entry(msg.chars().take(60).collect::<String>().replace(|c: char| c.is_ascii_digit(), "#")).or_insert(0) += 1;
            if invalid_sample.is_none() {
                invalid_sample = Some(format!("index {}: {}", index, msg));
            }
        }
        if let Some(v) = &outcome.violation {
            if v.detail.contains("hung=true") {
                // a world that spins without touching the seam costs a full watchdog period: a few of them are
                // proof enough, the rest of this worker's slice stays unexplored rather than taking hours
                hung_worlds += 1;
            }
            let key = format!("{}|{}", v.class, serde_json::to_string(&v.features).unwrap());
            let n = violation_counts.entry(key).or_insert(0);
            *n += 1;
            if *n <= 2 {
                violations.push(json!({"index": index, "class": v.class, "detail": v.detail, "features": v.features, "case": case}));
            }
        } else if samples.len() < 2 && outcome.invalid.is_none() && !outcome.nontrivial.is_empty() {
            samples.push(json!({"index": index, "case": case, "outcome": summarize_outcome(&outcome)}));
        }
        index += workers;
        if hung_worlds >= 2 {
            break;
        }
    }

    let result = json!({
        "cases": cases,
        "execs": execs,
        "events": events,
        "sim_ns": sim_ns,
        "invalid": invalid,
        "invalid_sample": invalid_sample,
        "invalid_reasons": invalid_reasons,
        "faults": faults,
        "probes": probes,
        "nontrivial": nontrivial.iter().collect::<Vec<_>>(),
        "violations": violations,
        "violation_counts": violation_counts,
        "samples": samples,
        "digest": format!("{:016x}", digest),
        "digests": digests,
    });
    std::fs::write(outfile, serde_json::to_vec(&result).unwrap()).unwrap();
    0
}

// ---------------------------------------------------------------------------------------------
// minimisation

fn minimise(prop: &dyn Property, case: &J, class: &str, budget: usize, deadline: Instant) -> (J, usize) {
    let mut cur = case.clone();
    let mut used = 0usize;
    loop {
        if Instant::now() > deadline {
            return (cur, used);
        }
        let mut progressed = false;
        let candidates = prop.shrink(&cur);
        for cand in candidates {
            if used >= budget || Instant::now() > deadline {
                return (cur, used);
            }
            if cand == cur {
                continue;
            }
            used += 1;
            let o = prop.check(&cand, false);
            if o.invalid.is_some() {
                continue;
            }
            if let Some(v) = &o.violation {
                if v.class == class {
                    cur = cand;
                    progressed = true;
                    break;
                }
            }
        }
        if !progressed {
            return (cur, used);
        }
    }
}

// ---------------------------------------------------------------------------------------------
// known findings

struct Known {
    property: String,
    status: String,
    class: String,
    features: J,
    what: String,
}

/// known_findings.txt, one record per line:
///   known: property=<id> class=<class> features=<json object> :: <what fails>
///   fixed: property=<id> <commit> <what failed>          (suppresses nothing)
fn load_known(dir: &Path) -> Vec<Known> {
    let mut out = Vec::new();
    if let Ok(text) = std::fs::read_to_string(dir.join("known_findings.txt")) {
        for line in text.lines() {
            let line = line.trim();
            if line.is_empty() || line.starts_with('#') || line.starts_with("fixed:") {
                continue;
            }
            let parsed = (|| {
                let rest = line.strip_prefix("known:")?.trim();
                let (head, what) = rest.split_once("::")?;
                let mut property = None;
                let mut class = None;
                let mut features = json!({});
                for part in head.split_whitespace() {
                    if let Some(v) = part.strip_prefix("property=") {
                        property = Some(v.to_owned());
                    } else if let Some(v) = part.strip_prefix("class=") {
                        class = Some(v.to_owned());
                    } else if let Some(v) = part.strip_prefix("features=") {
                        features = serde_json::from_str::<J>(v).ok()?;
                    }
                }
                Some(Known { property: property?, status: "known".to_owned(), class: class?, features, what: what.trim().to_owned() })
            })();
            match parsed {
                Some(k) => out.push(k),
                None => {
                    eprintln!("HARNESS ERROR: known_findings.txt: cannot parse line: {}", line);
                    std::process::exit(2);
                }
            }
        }
    }
    out
}

fn known_match<'a>(known: &'a [Known], prop: &str, class: &str, features: &J) -> Option<&'a Known> {
    known.iter().find(|k| {
        k.status == "known"
            && k.property == prop
            && k.class == class
            && k.features.as_object().map(|o| o.iter().all(|(key, val)| features.get(key) == Some(val))).unwrap_or(true)
    })
}

// ---------------------------------------------------------------------------------------------
// orchestrator

fn run_main(args: &[String]) -> i32 {
    let id = &args[0];
    // the tier named on the command line wins; VERIF_TIER only fills in when none is given
    let tier = match args.get(1).map(|s| s.as_str()) {
        Some("quick") => "quick".to_owned(),
        Some("thorough") => "thorough".to_owned(),
        _ => std::env::var("VERIF_TIER").ok().filter(|t| t == "quick" || t == "thorough").unwrap_or_else(|| "quick".to_owned()),
    };
    let thorough = tier == "thorough";
    let prop = find_prop(id);
    let seed = env_seed();
    let dir = verif_dir();
    let start = Instant::now();
    world::install_panic_hook();
    world::warm_up();

    if let Err(err) = seam_selfcheck() {
        eprintln!("HARNESS ERROR: seam self-check failed: {}", err);
        return 2;
    }

    let (quick_runs, thorough_runs) = prop.budget();
    let mut runs = if thorough { thorough_runs } else { quick_runs };
    if let Some(r) = std::env::var("VERIF_RUNS").ok().and_then(|s| s.parse::<u64>().ok()) {
        runs = r;
    }
    let workers: u64 = std::env::var("VERIF_WORKERS").ok().and_then(|s| s.parse().ok()).unwrap_or(16);

    let tmp = dir.join("sim").join("target").join("runs").join(format!("{}-{}", id, std::process::id()));
    let _ = std::fs::create_dir_all(&tmp);
    let exe = std::env::current_exe().unwrap();
    let mut children = Vec::new();
    for w in 0..workers {
        let outfile = tmp.join(format!("w{}.json", w));
        let child = Command::new(&exe)
            .arg("worker")
            .arg(id)
            .arg(seed.to_string())
            .arg(if thorough { "1" } else { "0" })
            .arg(w.to_string())
            .arg(workers.to_string())
            .arg(runs.to_string())
            .arg(&outfile)
            .env("TZ", "UTC")
            .stdin(Stdio::null())
            .spawn();
        match child {
            Ok(c) => children.push((c, outfile)),
            Err(err) => {
                eprintln!("HARNESS ERROR: cannot spawn worker: {}", err);
                return 2;
            }
        }
    }

    let mut cases = 0u64;
    let mut execs = 0u64;
    let mut events = 0u64;
    let mut sim_ns = 0u64;
    let mut invalid = 0u64;
    let mut invalid_sample = J::Null;
    let mut invalid_reasons: BTreeMap<String, u64> = BTreeMap::new();
    let mut faults: BTreeMap<String, u64> = BTreeMap::new();
    let mut probes: BTreeMap<String, u64> = BTreeMap::new();
    let mut nontrivial: BTreeSet<u64> = BTreeSet::new();
    let mut violations: Vec<J> = Vec::new();
    let mut violation_counts: BTreeMap<String, u64> = BTreeMap::new();
    let mut samples: Vec<J> = Vec::new();
    let mut digests: Vec<String> = Vec::new();
    let mut all_digests: Vec<J> = Vec::new();
    let mut dead_workers: Vec<J> = Vec::new();
    for (mut child, outfile) in children {
        let status = child.wait();
        let ok = status.map(|s| s.success()).unwrap_or(false);
        let data = std::fs::read(&outfile).ok().and_then(|b| serde_json::from_slice::<J>(&b).ok());
        let data = match (ok, data) {
            (true, Some(d)) => d,
            _ => {
                // the worker process died: which case was it checking?
                let cur = std::fs::read_to_string(format!("{}.cur", outfile.display())).ok().and_then(|t| t.trim().parse::<u64>().ok());
                match cur {
                    Some(index) => {
                        let mut rng = rng::Rng::new(rng::mix(seed, prop.id(), index));
                        let case = prop.generate(&mut rng, thorough);
                        dead_workers.push(json!({"index": index, "class": format!("{}.process_abort", id.to_lowercase()), "detail": format!("the process running the system under simulation died while checking case #{} (abort / allocation failure / exit inside the library)", index), "features": json!({"abort": true}), "case": case}));
                        continue;
                    }
                    None => {
                        eprintln!("HARNESS ERROR: worker failed before its first case ({:?})", outfile);
                        return 2;
                    }
                }
            }
        };
        cases += data["cases"].as_u64().unwrap_or(0);
        execs += data["execs"].as_u64().unwrap_or(0);
        events += data["events"].as_u64().unwrap_or(0);
        sim_ns += data["sim_ns"].as_u64().unwrap_or(0);
        invalid += data["invalid"].as_u64().unwrap_or(0);
        if invalid_sample.is_null() && !data["invalid_sample"].is_null() {
            invalid_sample = data["invalid_sample"].clone();
        }
        for (k, v) in data["faults"].as_object().unwrap() {
            *faults.entry(k.clone()).or_insert(0) += v.as_u64().unwrap_or(0);
        }
        for (k, v) in data["invalid_reasons"].as_object().unwrap() {
            *invalid_reasons.entry(k.clone()).or_insert(0) += v.as_u64().unwrap_or(0);
        }
        for (k, v) in data["probes"].as_object().unwrap() {
            *probes.entry(k.clone()).or_insert(0) += v.as_u64().unwrap_or(0);
        }
        for h in data["nontrivial"].as_array().unwrap() {
            nontrivial.insert(h.as_u64().unwrap_or(0));
        }
        for v in data["violations"].as_array().unwrap() {
            violations.push(v.clone());
        }
        for (k, v) in data["violation_counts"].as_object().unwrap() {
            *violation_counts.entry(k.clone()).or_insert(0) += v.as_u64().unwrap_or(0);
        }
        for s in data["samples"].as_array().unwrap() {
            if samples.len() < 3 {
                samples.push(s.clone());
            }
        }
        digests.push(util::jstr(&data, "digest"));
        for d in data["digests"].as_array().unwrap() {
            all_digests.push(d.clone());
        }
    }
    let _ = std::fs::remove_dir_all(&tmp);
    if std::env::var("VERIF_DIGEST").is_ok() {
        all_digests.sort_by_key(|d| d[0].as_u64().unwrap_or(0));
        let mut h = 0u64;
        for d in &all_digests {
            h = util::fnv_mix(h, util::fnv(d[1].as_str().unwrap_or("").as_bytes()));
        }
        println!("DIGEST property={} seed={} cases={} digest={:016x}", id, seed, cases, h);
        if let Ok(path) = std::env::var("VERIF_DIGEST_FILE") {
            let _ = std::fs::write(path, serde_json::to_vec(&all_digests).unwrap());
        }
    }
    let sim_wall = start.elapsed().as_secs_f64();

    // one representative per (class, features), lowest index first
    violations.sort_by_key(|v| v["index"].as_u64().unwrap_or(0));
    let known = load_known(&dir);
    let mut seen: BTreeSet<String> = BTreeSet::new();
    let mut reported = 0;
    let mut known_hits = 0;
    let replay_dir = dir.join("replays");
    let mut violation_summaries = Vec::new();
    let minimise_until = Instant::now() + std::time::Duration::from_secs(180);
    for v in &dead_workers {
        let class = util::jstr(v, "class");
        let _ = std::fs::create_dir_all(&replay_dir);
        let path = replay_dir.join(format!("{}-{}-seed{}-i{}.json", id, class.replace('.', "_"), seed, v["index"].as_u64().unwrap_or(0)));
        let replay = json!({"property": id, "seed": seed, "index": v["index"], "class": class, "detail": v["detail"], "features": v["features"], "case": v["case"], "note": "not minimised: the case kills the process that checks it; the replay command runs it in a child process"});
        let _ = std::fs::write(&path, serde_json::to_vec_pretty(&replay).unwrap());
        println!("VIOLATION property={} replay={}", id, path.display());
        println!("  class={} : {}", class, util::jstr(v, "detail"));
        reported += 1;
        violation_summaries.push(json!({"class": class, "cases": 1, "known": false, "replay": path.display().to_string()}));
    }
    for v in &violations {
        let class = util::jstr(v, "class");
        let features = v["features"].clone();
        let key = format!("{}|{}", class, serde_json::to_string(&features).unwrap());
        if !seen.insert(key.clone()) {
            continue;
        }
        let count = violation_counts.get(&key).cloned().unwrap_or(1);
        if let Some(k) = known_match(&known, id, &class, &features) {
            println!("KNOWN-FINDING: property={} {} [class={} cases={}]", id, k.what, class, count);
            known_hits += 1;
            violation_summaries.push(json!({"class": class, "features": features, "cases": count, "known": true}));
            continue;
        }
        if reported >= 12 {
            continue;
        }
        // minimise and write the replay file
        let case = v["case"].clone();
        let hung = class.ends_with("no_termination") && util::jstr(v, "detail").contains("hung=true");
        // minimisation is bounded in executions and in wall time (per class and for the whole report)
        let per_class = std::env::var("VERIF_MINIMISE_SECS").ok().and_then(|s| s.parse::<u64>().ok()).unwrap_or(40);
        let deadline = (Instant::now() + std::time::Duration::from_secs(per_class)).min(minimise_until);
        let (min_case, used) = if hung { (case.clone(), 0) } else { minimise(prop.as_ref(), &case, &class, 2000, deadline) };
        let final_outcome = prop.check(&min_case, true);
        let (detail, min_features) = match &final_outcome.violation {
            Some(fv) => (fv.detail.clone(), fv.features.clone()),
            None => (util::jstr(v, "detail"), features.clone()),
        };
        // a minimised case may fall into a known finding's features
        if let Some(k) = known_match(&known, id, &class, &min_features) {
            println!("KNOWN-FINDING: property={} {} [class={} cases={}]", id, k.what, class, count);
            known_hits += 1;
            violation_summaries.push(json!({"class": class, "features": min_features, "cases": count, "known": true}));
            continue;
        }
        let _ = std::fs::create_dir_all(&replay_dir);
        let name = format!("{}-{}-seed{}-i{}.json", id, class.replace('.', "_"), seed, v["index"].as_u64().unwrap_or(0));
        let path = replay_dir.join(&name);
        let replay = json!({
            "property": id,
            "seed": seed,
            "index": v["index"],
            "class": class,
            "detail": detail,
            "features": min_features,
            "cases_in_this_class": count,
            "minimisation_executions": used,
            "case": min_case,
            "original_case": case,
            "trace": final_outcome.trace,
        });
        let _ = std::fs::write(&path, serde_json::to_vec_pretty(&replay).unwrap());
        println!("VIOLATION property={} replay={}", id, path.display());
        println!("  class={} cases={} : {}", class, count, detail.chars().take(300).collect::<String>());
        reported += 1;
        violation_summaries.push(json!({"class": class, "features": min_features, "cases": count, "known": false, "replay": path.display().to_string()}));
    }

    let wall = start.elapsed().as_secs_f64();
    let evidence = json!({
        "property_id": id,
        "tier": tier,
        "seed": seed,
        "level": prop.level(),
        "coverage": {
            "evaluations": cases,
            "distinct_nontrivial": nontrivial.len(),
            "rule": prop.rule(),
            "samples": samples,
            "worlds_executed": execs,
            "seam_events_covered": events,
            "simulated_time_s": sim_ns as f64 / 1e9,
            "simulated_time": "virtual clock behind clock_gettime/nanosleep: every seam event costs 10 us, an EOF poll additionally the case's poll cost (0 .. 60 s), sleeps advance it by their duration; the unmodified sqlgrep has no timer, sleep or deadline, so for it simulated time only orders events",
            "cases_per_hour": if sim_wall > 0.0 { (cases as f64 / sim_wall * 3600.0) as u64 } else { 0 },
            "worlds_per_hour": if sim_wall > 0.0 { (execs as f64 / sim_wall * 3600.0) as u64 } else { 0 },
            "workers": workers,
            "invalid_cases": invalid,
            "invalid_sample": invalid_sample,
            "invalid_reasons": invalid_reasons,
            "faults_fired": faults,
            "probes": probes,
            "violation_classes": violation_summaries,
            "known_findings_matched": known_hits,
            "worker_digests": digests,
            "real_code": ["sqlgrep parser, Tables, TableDefinition::extract, ExecutionEngine, select/aggregate/join engines, FileExecutor, FollowFileExecutor, FollowFileIterator, OutputPrinter", "Rust std File/BufReader/lines/read_line/println!/RandomState/atomics", "regex, serde_json, chrono"],
            "stubbed": ["kernel VFS (SimDisk behind open/read/readv/pread/lseek/close/dup/fcntl(F_DUPFD)/statx/realpath)", "system clock and sleeps (virtual clock behind clock_gettime/nanosleep)", "process environment seen by the code under test (TZ and locale variables set per world)", "log-writing processes (Writer actor)", "ctrl-c handler thread (Interrupter actor: running.store(false))", "OS entropy (getrandom serves scripted hash keys)", "terminal (write(1) captured)"],
            "not_executed": ["src/main.rs argument parsing / REPL / ctrlc registration", "src/table_editor.rs"],
        },
        "assumptions": prop.assumptions(),
        "wall_s": wall,
        "violations": reported,
    });
    let evidence_dir = dir.join("evidence");
    let _ = std::fs::create_dir_all(&evidence_dir);
    if let Err(err) = std::fs::write(evidence_dir.join(format!("{}.json", id)), serde_json::to_vec_pretty(&evidence).unwrap()) {
        eprintln!("HARNESS ERROR: cannot write evidence: {}", err);
        return 2;
    }
    println!(
        "{} {}: cases={} worlds={} events={} distinct_nontrivial={} invalid={} violations={} known={} wall={:.1}s",
        id,
        tier,
        cases,
        execs,
        events,
        nontrivial.len(),
        invalid,
        reported,
        known_hits,
        wall
    );
    if invalid * 5 > cases {
        eprintln!("HARNESS ERROR: {} of {} generated cases were not valid scenarios ({})", invalid, cases, invalid_sample);
        return 2;
    }
    if reported > 0 {
        1
    } else {
        0
    }
}

fn replay_main(args: &[String]) -> i32 {
    let id = &args[0];
    let path = &args[1];
    if std::env::var("VERIF_REPLAY_CHILD").is_err() {
        // run the case in a child process: a case that takes its process down is still reported
        let status = Command::new(std::env::current_exe().unwrap()).arg("replay").arg(id).arg(path).env("VERIF_REPLAY_CHILD", "1").env("TZ", "UTC").status();
        return match status {
            Ok(s) if s.code().is_some() => s.code().unwrap(),
            Ok(s) => {
                println!("VIOLATION property={} replay={}", id, path);
                println!("  class={}.process_abort : the process running the system under simulation died ({:?})", id.to_lowercase(), s);
                1
            }
            Err(err) => {
                eprintln!("HARNESS ERROR: cannot spawn the replay child: {}", err);
                2
            }
        };
    }
    let prop = find_prop(id);
    world::install_panic_hook();
    world::warm_up();
    if let Err(err) = seam_selfcheck() {
        eprintln!("HARNESS ERROR: seam self-check failed: {}", err);
        return 2;
    }
    let data = match std::fs::read(path).ok().and_then(|b| serde_json::from_slice::<J>(&b).ok()) {
        Some(d) => d,
        None => {
            eprintln!("HARNESS ERROR: cannot read replay file {}", path);
            return 2;
        }
    };
    let case = if data.get("case").is_some() { data["case"].clone() } else { data.clone() };
    let outcome = prop.check(&case, true);
    for line in &outcome.trace {
        println!("{}", line);
    }
    match &outcome.violation {
        Some(v) => {
            println!("VIOLATION property={} replay={}", id, path);
            println!("  class={} : {}", v.class, v.detail);
            1
        }
        None => {
            if let Some(msg) = &outcome.invalid {
                println!("case is not a valid scenario: {}", msg);
            }
            println!("{}: replayed case holds", id);
            0
        }
    }
}

fn case_main(args: &[String]) -> i32 {
    let prop = find_prop(&args[0]);
    let index: u64 = args[1].parse().unwrap();
    world::install_panic_hook();
    world::warm_up();
    let mut rng = rng::Rng::new(rng::mix(env_seed(), prop.id(), index));
    let case = prop.generate(&mut rng, false);
    println!("{}", serde_json::to_string_pretty(&case).unwrap());
    let outcome = prop.check(&case, true);
    for line in &outcome.trace {
        println!("{}", line);
    }
    println!("{}", serde_json::to_string_pretty(&summarize_outcome(&outcome)).unwrap());
    println!("faults {:?} probes {:?}", outcome.faults, outcome.probes);
    0
}

fn main() {
    seam::mark_harness_thread();
    let args: Vec<String> = std::env::args().skip(1).collect();
    if std::env::var("TZ").map(|t| t != "UTC").unwrap_or(true) {
        // pin the time zone before any thread exists
        std::env::set_var("TZ", "UTC");
    }
    let code = match args.get(0).map(|s| s.as_str()) {
        Some("run") if args.len() >= 2 => run_main(&args[1..]),
        Some("worker") if args.len() >= 8 => worker_main(&args[1..]),
        Some("replay") if args.len() >= 3 => replay_main(&args[1..]),
        Some("case") if args.len() >= 3 => case_main(&args[1..]),
        Some("selftest") => {
            world::install_panic_hook();
    world::warm_up();
            match seam_selfcheck() {
                Ok(()) => {
                    println!("seam self-check ok");
                    0
                }
                Err(err) => {
                    eprintln!("HARNESS ERROR: {}", err);
                    2
                }
            }
        }
        _ => {
            eprintln!("usage: sim run <ID> quick|thorough | replay <ID> <file> | case <ID> <index> | selftest");
            2
        }
    };
    let _ = std::io::stdout().flush();
    std::process::exit(code);
}
