//! splitmix64 -> xoshiro256**: the only source of randomness, used only to *generate* cases.

#[derive(Clone)]
pub struct Rng {
    s: [u64; 4],
}

pub fn splitmix(x: &mut u64) -> u64 {
    *x = x.wrapping_add(0x9E3779B97F4A7C15);
    let mut z = *x;
    z = (z ^ (z >> 30)).wrapping_mul(0xBF58476D1CE4E5B9);
    z = (z ^ (z >> 27)).wrapping_mul(0x94D049BB133111EB);
    z ^ (z >> 31)
}

pub fn mix(seed: u64, prop: &str, index: u64) -> u64 {
    let mut x = seed ^ 0x6a09e667f3bcc908;
    let mut h = splitmix(&mut x);
    for b in prop.bytes() {
        x ^= b as u64;
        h ^= splitmix(&mut x);
    }
    x ^= index.wrapping_mul(0x9E3779B97F4A7C15);
    h ^ splitmix(&mut x)
}

impl Rng {
    pub fn new(seed: u64) -> Rng {
        let mut x = seed;
        Rng { s: [splitmix(&mut x), splitmix(&mut x), splitmix(&mut x), splitmix(&mut x)] }
    }

    pub fn next(&mut self) -> u64 {
        let result = self.s[1].wrapping_mul(5).rotate_left(7).wrapping_mul(9);
        let t = self.s[1] << 17;
        self.s[2] ^= self.s[0];
        self.s[3] ^= self.s[1];
        self.s[1] ^= self.s[2];
        self.s[0] ^= self.s[3];
        self.s[2] ^= t;
        self.s[3] = self.s[3].rotate_left(45);
        result
    }

    /// uniform in 0..n (n > 0)
    pub fn below(&mut self, n: usize) -> usize {
        if n <= 1 {
            return 0;
        }
        (self.next() % n as u64) as usize
    }

    /// uniform in lo..=hi
    pub fn range(&mut self, lo: i64, hi: i64) -> i64 {
        if hi <= lo {
            return lo;
        }
        lo + (self.next() % ((hi - lo + 1) as u64)) as i64
    }

    pub fn chance(&mut self, num: usize, den: usize) -> bool {
        self.below(den) < num
    }

    pub fn pick<'a, T>(&mut self, items: &'a [T]) -> &'a T {
        &items[self.below(items.len())]
    }

    pub fn shuffle<T>(&mut self, items: &mut [T]) {
        for i in (1..items.len()).rev() {
            let j = self.below(i + 1);
            items.swap(i, j);
        }
    }

    pub fn key16(&mut self) -> [u8; 16] {
        let a = self.next().to_le_bytes();
        let b = self.next().to_le_bytes();
        let mut k = [0u8; 16];
        k[..8].copy_from_slice(&a);
        k[8..].copy_from_slice(&b);
        k
    }
}
