//! One simulated execution ("world"): the real sqlgrep library driven on a fresh thread whose
//! system-call boundary is owned by `seam::World`. A `WorldSpec` is explicit data; running it draws
//! no random numbers and reads no clock, so the same spec always yields the same `WorldResult`.

use std::fs::File;
use std::io::{BufReader, Seek, SeekFrom, Write};
use std::sync::atomic::AtomicBool;
use std::sync::mpsc;
use std::sync::Arc;
use std::time::Duration;

use sqlgrep::data_model::Tables;
use sqlgrep::execution::execution_engine::{ExecutionConfig, ExecutionEngine};
use sqlgrep::executor::{DisplayOptions, FileExecutor, FollowFileExecutor, OutputFormat, OutputPrinter, Printer};
use sqlgrep::helpers::FollowFileIterator;
use sqlgrep::model::Statement;

use crate::seam::{self, Event, EvKind, Interrupt, ReadMode, Step, World};

#[derive(Clone, Debug, PartialEq)]
pub enum Mode {
    /// FileExecutor over `files` with the harness printer
    Batch,
    /// FollowFileExecutor over files[0]; output from the write(1) seam
    FollowExec { head: bool },
    /// FollowFileIterator over files[0] with a BufReader of the given capacity, drained by the harness
    FollowIter { head: bool, cap: usize },
    /// ExecutionEngine::execute(line, ExecutionConfig::default()) for every line in `engine_lines`
    Engine,
    /// batch-style use of the engine API: ExecutionConfig::aggregate_update() per line of `engine_lines`, then
    /// ExecutionConfig::aggregate_result() requested twice (the result call must be repeatable)
    EngineBatch,
    /// no query at all: a 16-entry std HashMap is filled on the SUT thread and its iteration order
    /// delivered (measures whether two key blocks really give different hash orders)
    HashProbe,
    /// no sqlgrep code at all: plain std file / stdout / HashMap operations on the SUT thread, used by
    /// the start-up self check to see that std still reaches the kernel through the seam
    SeamProbe,
}

#[derive(Clone, Debug)]
pub struct WorldSpec {
    pub defs: String,
    pub stmt: String,
    pub mode: Mode,
    /// main input files in command-line order: (path, initial content)
    pub files: Vec<(String, Vec<u8>)>,
    /// further files that exist on the simulated disk (the joined file)
    pub extra_files: Vec<(String, Vec<u8>)>,
    /// writer plan: chunks appended to files[0], in order
    pub appends: Vec<Vec<u8>>,
    pub steps: Vec<Step>,
    pub read_mode: ReadMode,
    pub end_after_idle: Option<usize>,
    pub interrupt: Option<Interrupt>,
    pub keys: Vec<[u8; 16]>,
    pub real_entropy: bool,
    pub format: String,
    pub single_result: bool,
    /// DisplayOptions.print_result (false = the benchmark configuration: execute but print nothing)
    pub print_result: bool,
    pub engine_lines: Vec<String>,
    /// how often the whole query is executed on this one thread (C18)
    pub repeat: usize,
    /// a session (src/main.rs execute(): running.store(true) before every statement): the interrupt flag is armed
    /// again before the second and later executions, which share the `Tables` with the first
    pub rearm_between_repeats: bool,
    pub event_budget: usize,
    /// simulated duration of one EOF poll (0 = a spinning follower on a fast machine; seconds = a slow or
    /// descheduled one, or equivalently a writer that pauses)
    pub poll_cost_ns: u64,
    /// the main input files behave like pipes (`cmd | sqlgrep --stdin`, FIFOs): size 0 in metadata, not seekable
    pub pipe_inputs: bool,
    /// the input files have been removed from their directory (link count 0) but are still open / still written
    pub unlinked_inputs: bool,
    /// follow modes: the descriptor handed to the follower is positioned here first (an inherited descriptor such
    /// as redirected stdin need not be at byte 0)
    pub pre_seek: Option<u64>,
    /// TZ environment variable for this world (POSIX form such as "JST-9"); None = UTC
    pub tz: Option<String>,
    /// further environment variables of the world's process (LANG, LC_ALL, ...)
    pub env: Vec<(String, String)>,
    /// FollowExec: writer chunks that land after FollowFileExecutor::new returned and before execute() is called
    pub land_after_new: usize,
    /// Batch mode: the engine handed to FileExecutor has its joined table loaded already
    /// (`ExecutionEngine::with_executed_joined_table`, the constructor the Python wrapper uses); execute() loads it again
    pub preload_join: bool,
    /// Batch mode: lines given to the engine through `ExecutionEngine::execute(line, default config)` before the
    /// engine is handed to FileExecutor (a caller that worked off a backlog itself); their output is discarded
    pub prefeed_lines: Vec<String>,
    /// index into `files` of an input whose every read fails with EIO
    pub unreadable_file: Option<usize>,
}

impl WorldSpec {
    pub fn new(defs: &str, stmt: &str, mode: Mode) -> WorldSpec {
        WorldSpec {
            defs: defs.to_owned(),
            stmt: stmt.to_owned(),
            mode,
            files: Vec::new(),
            extra_files: Vec::new(),
            appends: Vec::new(),
            steps: Vec::new(),
            read_mode: ReadMode::Bulk,
            end_after_idle: None,
            interrupt: None,
            keys: Vec::new(),
            real_entropy: false,
            format: "text".to_owned(),
            single_result: false,
            print_result: true,
            engine_lines: Vec::new(),
            repeat: 1,
            rearm_between_repeats: false,
            event_budget: 20_000,
            poll_cost_ns: 0,
            pipe_inputs: false,
            unlinked_inputs: false,
            pre_seek: None,
            tz: None,
            env: Vec::new(),
            land_after_new: 0,
            preload_join: false,
            prefeed_lines: Vec::new(),
            unreadable_file: None,
        }
    }
}

#[derive(Clone, Debug, PartialEq)]
pub enum Status {
    Ok,
    /// the executor returned an ExecutionError
    Err(String),
    Panic(String),
    /// definitions / statement did not parse, file could not be opened: the case is not a valid scenario
    Setup(String),
}

pub use crate::seam::EngineOut;

#[derive(Clone, Debug)]
pub struct WorldResult {
    pub status: Status,
    pub log: Vec<Event>,
    pub stdout: Vec<u8>,
    pub total_lines: u64,
    pub total_result_rows: u64,
    pub runaway: bool,
    pub hard_stopped: bool,
    pub hung: bool,
    pub interrupted_at: Option<usize>,
    pub terminating_eio: bool,
    pub engine: Vec<EngineOut>,
    pub getrandom_calls: usize,
    pub enoent: usize,
    /// simulated nanoseconds that passed in this world
    pub clock_ns: u64,
    pub sleeps: u64,
    /// seam calls made by threads the SUT spawned itself (0 for the unmodified library)
    pub foreign_thread_calls: u64,
}

impl WorldResult {
    /// Lines handed to the harness printer, in order.
    pub fn printed(&self) -> Vec<String> {
        self.log
            .iter()
            .filter(|e| e.kind == EvKind::Print)
            .map(|e| String::from_utf8_lossy(e.text.as_ref().unwrap()).into_owned())
            .collect()
    }

    pub fn delivered(&self) -> Vec<Vec<u8>> {
        self.log
            .iter()
            .filter(|e| e.kind == EvKind::Deliver)
            .map(|e| e.text.clone().unwrap())
            .collect()
    }

    pub fn terminated(&self) -> bool {
        !self.runaway && !self.hard_stopped && !self.hung
    }

    /// Hash of the schedule as the SUT experienced it: (kind, bytes served, bytes landed, fault) per event.
    pub fn schedule_signature(&self) -> u64 {
        let mut h: u64 = 0xcbf29ce484222325;
        let mut mix = |x: u64| {
            h ^= x;
            h = h.wrapping_mul(0x100000001b3);
            h ^= h >> 29;
        };
        for e in &self.log {
            let k = match e.kind {
                EvKind::Open => 1,
                EvKind::Read => 2,
                EvKind::Seek => 3,
                EvKind::Close => 4,
                EvKind::Write => 5,
                EvKind::Print => 6,
                EvKind::GetRandom => 7,
                EvKind::Deliver => 8,
                EvKind::Stat => 9,
                EvKind::Constructed => 10,
            };
            mix(k);
            if matches!(e.kind, EvKind::Read | EvKind::Seek | EvKind::Open | EvKind::Stat) {
                mix(e.ret as u64);
                mix(e.landed as u64);
                mix(e.file as u64);
                mix(match e.fault {
                    seam::Fault::None => 0,
                    seam::Fault::Eintr => 1,
                    seam::Fault::Eio => 2,
                    seam::Fault::Short(_) => 3,
                });
            }
            if e.interrupted {
                mix(99);
            }
        }
        h
    }
}

struct SimPrinter;

impl Printer for SimPrinter {
    fn println(&mut self, line: &str) {
        seam::with_world(|w| w.on_print(line));
    }
}

fn parse_format(format: &str) -> OutputFormat {
    // through the public parser the command line uses ("text" | "json" | "csv")
    use std::str::FromStr;
    OutputFormat::from_str(format).unwrap_or(OutputFormat::Text)
}

struct DriverOut {
    status: Status,
    total_lines: u64,
    total_result_rows: u64,
}

fn setup(spec: &WorldSpec) -> Result<(Tables, Statement), String> {
    let mut tables = Tables::new();
    if !spec.defs.trim().is_empty() {
        match sqlgrep::parsing::parse(&spec.defs) {
            Ok(statement) => {
                if !tables.add_tables(statement) {
                    return Err("definitions are not CREATE TABLE statements".to_owned());
                }
            }
            Err(err) => return Err(format!("definitions: {}", err)),
        }
    }
    let statement = sqlgrep::parsing::parse(&spec.stmt).map_err(|err| format!("statement: {}", err))?;
    match statement {
        Statement::Select(_) | Statement::Aggregate(_) => {}
        _ => return Err("not a query".to_owned()),
    }
    Ok((tables, statement))
}

fn drive(spec: &WorldSpec, running: Arc<AtomicBool>) -> DriverOut {
    let mut out = DriverOut { status: Status::Ok, total_lines: 0, total_result_rows: 0 };
    if spec.mode == Mode::SeamProbe {
        use std::io::{BufRead, Read};
        let m: std::collections::HashMap<u8, u8> = std::collections::HashMap::new();
        drop(m);
        if let Ok(file) = File::open(&spec.files[0].0) {
            // metadata and path resolution of a simulated file
            let len = file.metadata().map(|m| m.len() as i64).unwrap_or(-1);
            let canon = std::fs::canonicalize(&spec.files[0].0).map(|p| p.display().to_string()).unwrap_or_else(|e| format!("error {}", e));
            // a duplicated descriptor shares the file offset and stays inside the simulation
            let dup_ok = match file.try_clone() {
                Ok(mut copy) => {
                    let mut a = [0u8; 2];
                    let mut b = [0u8; 3];
                    let mut original = &file;
                    let r1 = original.read(&mut a).unwrap_or(0);
                    let r2 = copy.read(&mut b).unwrap_or(0);
                    let pos = copy.seek(SeekFrom::Start(0)).unwrap_or(99);
                    r1 == 2 && r2 == 3 && &a == b"fi" && &b == b"rst" && pos == 0
                }
                Err(_) => false,
            };
            seam::with_world(|w| w.on_deliver(format!("meta {} {} dup={}", len, canon, dup_ok).as_bytes()));
            let mut reader = BufReader::with_capacity(8, file);
            let _ = reader.seek(SeekFrom::End(0));
            let _ = reader.seek(SeekFrom::Start(0));
            let mut first = String::new();
            let _ = reader.read_line(&mut first);
            seam::with_world(|w| w.on_deliver(first.as_bytes()));
            let mut rest = Vec::new();
            let _ = reader.read_to_end(&mut rest);
            seam::with_world(|w| w.on_deliver(&rest));
        }
        // a thread spawned from inside the simulation stays inside it
        let path = spec.files[0].0.clone();
        let from_thread = std::thread::spawn(move || {
            let mut text = String::new();
            match File::open(&path) {
                Ok(mut f) => {
                    let _ = f.read_to_string(&mut text);
                }
                Err(err) => text = format!("error {}", err),
            }
            text.len()
        })
        .join()
        .unwrap_or(0);
        seam::with_world(|w| w.on_deliver(format!("thread read {}", from_thread).as_bytes()));
        println!("probe");
        let _ = std::io::stdout().flush();
        // the clock seam: a one-second sleep must cost no real time and advance the virtual clock
        let t0 = std::time::Instant::now();
        std::thread::sleep(Duration::from_secs(1));
        let elapsed = t0.elapsed();
        seam::with_world(|w| w.on_deliver(format!("slept {}", elapsed.as_secs()).as_bytes()));
        return out;
    }
    if spec.mode == Mode::HashProbe {
        let mut m = std::collections::HashMap::new();
        for i in 0..16u8 {
            m.insert(i, i);
        }
        let order: Vec<u8> = m.keys().cloned().collect();
        seam::with_world(|w| w.on_deliver(&order));
        return out;
    }
    let (tables, statement) = match setup(spec) {
        Ok(x) => x,
        Err(err) => {
            out.status = Status::Setup(err);
            return out;
        }
    };

    for round in 0..spec.repeat.max(1) {
        if round > 0 && spec.rearm_between_repeats {
            running.store(true, std::sync::atomic::Ordering::SeqCst);
        }
        match &spec.mode {
            Mode::Batch => {
                let mut files = Vec::new();
                for (path, _) in &spec.files {
                    match File::open(path) {
                        Ok(f) => files.push(f),
                        Err(err) => {
                            out.status = Status::Setup(format!("open {}: {}", path, err));
                            return out;
                        }
                    }
                }
                let mut display_options = DisplayOptions::default();
                display_options.output_format = parse_format(&spec.format);
                display_options.single_result = spec.single_result;
                display_options.print_result = spec.print_result;
                let engine = if spec.preload_join {
                    match ExecutionEngine::with_executed_joined_table(&tables, &statement) {
                        Ok(engine) => engine,
                        Err(err) => {
                            out.status = Status::Err(format!("{}", err));
                            return out;
                        }
                    }
                } else {
                    ExecutionEngine::new(&tables, &statement)
                };
                let mut engine = engine;
                for line in &spec.prefeed_lines {
                    let _ = engine.execute(line.clone(), &ExecutionConfig::default());
                }
                let executor = FileExecutor::with_output_printer(running.clone(), files, display_options, SimPrinter, engine);
                match executor {
                    Ok(mut executor) => {
                        let result = executor.execute();
                        out.total_lines += executor.statistics().total_lines;
                        out.total_result_rows += executor.statistics().total_result_rows;
                        if let Err(err) = result {
                            out.status = Status::Err(format!("{}", err));
                        }
                    }
                    Err(err) => {
                        out.status = Status::Setup(format!("executor: {}", err));
                        return out;
                    }
                }
            }
            Mode::FollowExec { head } => {
                let mut file = match File::open(&spec.files[0].0) {
                    Ok(f) => f,
                    Err(err) => {
                        out.status = Status::Setup(format!("open: {}", err));
                        return out;
                    }
                };
                if let Some(pos) = spec.pre_seek {
                    let _ = file.seek(SeekFrom::Start(pos));
                }
                let mut display_options = DisplayOptions::default();
                display_options.output_format = parse_format(&spec.format);
                match FollowFileExecutor::new(running.clone(), file, *head, display_options, ExecutionEngine::new(&tables, &statement)) {
                    Ok(mut executor) => {
                        // start-up is over: what the writer appends from here on must be delivered
                        seam::with_world(|w| w.on_constructed(spec.land_after_new));
                        if let Err(err) = executor.execute() {
                            out.status = Status::Err(format!("{}", err));
                        }
                    }
                    Err(err) => {
                        out.status = Status::Err(format!("follow: {}", err));
                    }
                }
                let _ = std::io::stdout().flush();
            }
            Mode::FollowIter { head, cap } => {
                let mut file = match File::open(&spec.files[0].0) {
                    Ok(f) => f,
                    Err(err) => {
                        out.status = Status::Setup(format!("open: {}", err));
                        return out;
                    }
                };
                if let Some(pos) = spec.pre_seek {
                    let _ = file.seek(SeekFrom::Start(pos));
                }
                let mut reader = BufReader::with_capacity((*cap).max(1), file);
                let seek = if *head { reader.seek(SeekFrom::Start(0)) } else { reader.seek(SeekFrom::End(0)) };
                if let Err(err) = seek {
                    out.status = Status::Err(format!("seek: {}", err));
                    return out;
                }
                for item in FollowFileIterator::new(reader) {
                    seam::with_world(|w| w.on_deliver(item.as_bytes()));
                }
            }
            Mode::HashProbe | Mode::SeamProbe => {}
            Mode::EngineBatch => {
                let mut engine = ExecutionEngine::new(&tables, &statement);
                if engine.is_join() {
                    if let Err(err) = engine.execute_joined_table(running.clone()) {
                        out.status = Status::Err(format!("{}", err));
                        return out;
                    }
                }
                let update = engine.execution_config();
                for line in &spec.engine_lines {
                    if let Err(err) = engine.execute(line.clone(), &update) {
                        out.status = Status::Err(format!("{}", err));
                        return out;
                    }
                }
                let mut printer = OutputPrinter::with_printer(SimPrinter, parse_format(&spec.format));
                for _ in 0..2 {
                    let before = seam::with_world(|w| w.log.len()).unwrap_or(0);
                    let mut eo = EngineOut { error: None, has_row: false, columns: Vec::new(), rows: Vec::new(), printed: Vec::new(), updated: false, reached_limit: false };
                    match engine.execute(String::new(), &ExecutionConfig::aggregate_result()) {
                        Ok(output) => {
                            if let Some(result_row) = output.result_row {
                                eo.has_row = true;
                                eo.columns = result_row.columns.clone();
                                printer.print(&result_row, true);
                                eo.printed = seam::with_world(|w| {
                                    w.log[before..].iter().filter(|e| e.kind == EvKind::Print).map(|e| String::from_utf8_lossy(e.text.as_ref().unwrap()).into_owned()).collect()
                                })
                                .unwrap_or_default();
                            }
                            seam::with_world(|w| w.engine.push(eo));
                        }
                        Err(err) => {
                            eo.error = Some(format!("{}", err));
                            seam::with_world(|w| w.engine.push(eo));
                            out.status = Status::Err(format!("{}", err));
                            return out;
                        }
                    }
                }
            }
            Mode::Engine => {
                let mut engine = ExecutionEngine::new(&tables, &statement);
                if engine.is_join() {
                    if let Err(err) = engine.execute_joined_table(running.clone()) {
                        out.status = Status::Err(format!("{}", err));
                        return out;
                    }
                }
                let mut printer = OutputPrinter::with_printer(SimPrinter, parse_format(&spec.format));
                for line in &spec.engine_lines {
                    seam::with_world(|w| w.on_deliver(line.as_bytes()));
                    let before = seam::with_world(|w| w.log.len()).unwrap_or(0);
                    let mut eo = EngineOut { error: None, has_row: false, columns: Vec::new(), rows: Vec::new(), printed: Vec::new(), updated: false, reached_limit: false };
                    match engine.execute(line.clone(), &ExecutionConfig::default()) {
                        Ok(output) => {
                            eo.updated = output.updated;
                            eo.reached_limit = output.reached_limit;
                            if let Some(result_row) = output.result_row {
                                eo.has_row = true;
                                eo.columns = result_row.columns.clone();
                                eo.rows = result_row.data.iter().map(|r| r.columns.iter().map(|v| format!("{:?}", v)).collect()).collect();
                                printer.print(&result_row, output.updated);
                                eo.printed = seam::with_world(|w| {
                                    w.log[before..]
                                        .iter()
                                        .filter(|e| e.kind == EvKind::Print)
                                        .map(|e| String::from_utf8_lossy(e.text.as_ref().unwrap()).into_owned())
                                        .collect()
                                })
                                .unwrap_or_default();
                            }
                            seam::with_world(|w| w.engine.push(eo));
                        }
                        Err(err) => {
                            eo.error = Some(format!("{}", err));
                            seam::with_world(|w| w.engine.push(eo));
                            out.status = Status::Err(format!("{}", err));
                            return out;
                        }
                    }
                }
            }
        }
    }
    out
}

enum Msg {
    Done(Box<WorldResult>),
    HardStop,
}

pub fn install_panic_hook() {
    let default = std::panic::take_hook();
    std::panic::set_hook(Box::new(move |info| {
        if seam::has_world() {
            let msg = format!("{}", info);
            if seam::with_world(|w| {
                if w.panic_msg.is_none() {
                    w.panic_msg = Some(msg.clone());
                }
            })
            .is_none()
            {
                // panic inside the seam itself: a harness bug, make it loud
                eprintln!("HARNESS PANIC inside seam: {}", msg);
            }
        } else {
            default(info);
        }
    }));
}

pub const WATCHDOG_SECS: u64 = 30;

/// Runs one world on a fresh thread and returns what happened.
pub fn run_world(spec: &WorldSpec) -> WorldResult {
    let (tx, rx) = mpsc::channel::<Msg>();
    let spec2 = spec.clone();
    let tx_hard = tx.clone();
    let (hard_tx, hard_rx) = mpsc::channel::<()>();
    // relay hard stops
    let builder = std::thread::Builder::new().stack_size(8 << 20);
    let handle = builder
        .spawn(move || {
            let running = Arc::new(AtomicBool::new(true));
            let mut world = Box::new(World::new());
            for (path, data) in &spec2.files {
                // the same path may be named more than once on the command line: one file, opened twice
                if world.files.iter().any(|f| f.path == *path) {
                    continue;
                }
                let idx = world.add_file(path, data.clone());
                world.files[idx].pipe = spec2.pipe_inputs;
                world.files[idx].unlinked = spec2.unlinked_inputs;
            }
            for (path, data) in &spec2.extra_files {
                world.add_file(path, data.clone());
            }
            if let Some(i) = spec2.unreadable_file {
                if let Some(path) = spec2.files.get(i).map(|f| f.0.clone()) {
                    if let Some(f) = world.files.iter_mut().find(|f| f.path == path) {
                        f.unreadable = true;
                    }
                }
            }
            for chunk in &spec2.appends {
                world.pending.push_back((0, chunk.clone()));
            }
            world.steps = spec2.steps.clone();
            world.read_mode = spec2.read_mode.clone();
            world.end_after_idle = spec2.end_after_idle;
            world.interrupt = spec2.interrupt.clone();
            world.running = Some(running.clone());
            world.keys = spec2.keys.clone();
            world.real_entropy = spec2.real_entropy;
            world.event_budget = spec2.event_budget;
            world.poll_cost_ns = spec2.poll_cost_ns;
            world.hard_stop = Some(hard_tx);
            seam::install(world);
            // the process environment belongs to the scenario too: one SUT thread at a time, nobody else reads it
            std::env::set_var("TZ", spec2.tz.as_deref().unwrap_or("UTC"));
            for (k, v) in &spec2.env {
                std::env::set_var(k, v);
            }

            let spec3 = spec2.clone();
            let running2 = running.clone();
            let result = std::panic::catch_unwind(std::panic::AssertUnwindSafe(move || drive(&spec3, running2)));
            let _ = std::io::stdout().flush();
            std::env::set_var("TZ", "UTC");
            for (k, _) in &spec2.env {
                std::env::remove_var(k);
            }
            let world = seam::uninstall();
            let (status, total_lines, total_result_rows) = match result {
                Ok(out) => (out.status, out.total_lines, out.total_result_rows),
                Err(_) => (Status::Panic(world.panic_msg.clone().unwrap_or_else(|| "panic".to_owned())), 0, 0),
            };
            let world = *world;
            let res = WorldResult {
                status,
                log: world.log,
                stdout: world.stdout,
                total_lines,
                total_result_rows,
                runaway: world.runaway,
                hard_stopped: false,
                hung: false,
                interrupted_at: world.interrupted_at,
                terminating_eio: world.terminating_eio,
                engine: world.engine,
                getrandom_calls: world.getrandom_calls,
                enoent: world.enoent,
                clock_ns: world.clock_ns,
                sleeps: world.sleeps,
                foreign_thread_calls: world.foreign_thread_calls,
            };
            let _ = tx.send(Msg::Done(Box::new(res)));
        })
        .expect("spawn SUT thread");

    // a second tiny relay is avoided: poll both channels
    let deadline = std::time::Instant::now() + Duration::from_secs(WATCHDOG_SECS);
    loop {
        match rx.recv_timeout(Duration::from_millis(5)) {
            Ok(Msg::Done(res)) => {
                let _ = handle.join();
                return *res;
            }
            Ok(Msg::HardStop) => {}
            Err(mpsc::RecvTimeoutError::Timeout) => {}
            Err(mpsc::RecvTimeoutError::Disconnected) => {
                // the thread died without reporting (cannot normally happen)
                return empty_result(Status::Panic("SUT thread vanished".to_owned()), false, true);
            }
        }
        if hard_rx.try_recv().is_ok() {
            let _ = tx_hard;
            return empty_result(Status::Ok, true, false);
        }
        if std::time::Instant::now() > deadline {
            return empty_result(Status::Ok, false, true);
        }
    }
}

fn empty_result(status: Status, hard: bool, hung: bool) -> WorldResult {
    WorldResult {
        status,
        log: Vec::new(),
        stdout: Vec::new(),
        total_lines: 0,
        total_result_rows: 0,
        runaway: hard,
        hard_stopped: hard,
        hung,
        interrupted_at: None,
        terminating_eio: false,
        engine: Vec::new(),
        getrandom_calls: 0,
        enoent: 0,
        clock_ns: 0,
        sleeps: 0,
        foreign_thread_calls: 0,
    }
}

/// Process-global lazily initialised state of the SUT (the parser's keyword / function tables are
/// `lazy_static` HashMaps) is created by whichever thread parses first, and creating a HashMap advances
/// that thread's RandomState counter. To keep a world's result a function of its spec alone - and not
/// of whether it happens to be the first world of its process - every harness process runs these
/// throw-away worlds first.
pub fn warm_up() {
    if std::env::var("VERIF_NO_WARMUP").is_ok() {
        // only for demonstrating that the determinism self-test notices the missing warm-up
        return;
    }
    let defs = "CREATE TABLE t(line = 'k=([a-z]+) n=(-?[0-9]+)', line[1] => k TEXT, line[2] => n INT NOT NULL, line[1], line[2] => arr TEXT[], line[2], line[2], line[2] => d TIMESTAMP); CREATE TABLE u(line = split ';', line[1] => k TEXT TRIM, line[2] => m INT DEFAULT 3, { .a.b[0] } => j REAL);";
    let statements = [
        "SELECT upper(k) AS u, n + 1, arr[1], EXTRACT(YEAR FROM d), CASE WHEN n > 1 THEN 'x' ELSE 'y' END, n::text, least(n, 2), regexp_matches(k, 'a') FROM t WHERE n > 0 AND k IN ('a', 'b') OR NOT n IS NULL",
        "SELECT k, COUNT(*) AS c, MAX(n), SUM(n) * 2, COUNT(DISTINCT n), PERCENTILE(n, 0.5), STRING_AGG(k, ','), ARRAY_AGG(n), BOOL_AND(n > 1), STDDEV(n), VARIANCE(n), AVG(n), MIN(k) FROM t GROUP BY k HAVING SUM(n) > 0 AND k != 'q' LIMIT 5",
        "SELECT DISTINCT * FROM t OUTER JOIN u::'/simfs/warm_joined.log' ON t.k = u.k",
        "SELECT date_trunc('day', d), make_timestamp(2020, 1, 2, 3, 4, 5, 6), now() FROM t::'/simfs/main0.log'",
    ];
    for stmt in statements {
        let mut spec = WorldSpec::new(defs, stmt, Mode::Batch);
        spec.files.push(("/simfs/main0.log".to_owned(), b"k=a n=1\nk=b n=2\nnoise\n".to_vec()));
        spec.extra_files.push(("/simfs/warm_joined.log".to_owned(), b"a;1\nb;2\n".to_vec()));
        let res = run_world(&spec);
        if let Status::Setup(err) = &res.status {
            // a warm-up statement that does not parse would leave lazily initialised state untouched
            eprintln!("HARNESS ERROR: warm-up statement does not parse: {} ({})", stmt, err);
            std::process::exit(2);
        }
    }
    let mut spec = WorldSpec::new(defs, "SELECT k, COUNT(*) FROM t GROUP BY k", Mode::FollowExec { head: true });
    spec.files.push(("/simfs/follow.log".to_owned(), b"k=a n=1\n".to_vec()));
    spec.end_after_idle = Some(1);
    let _ = run_world(&spec);
    let _ = sqlgrep::parsing::completion_words();
}
