//! Reading a follow-mode world's event log: what was served to the follower when, what it delivered
//! when, and the C10 oracle (prefix safety at every event, completeness at quiescent points and at
//! the end). Shared by every property that has a follow-mode variant.

use crate::seam::{EvKind, Event};
use crate::util::complete_lines;
use crate::world::WorldResult;

pub const FOLLOW_PATH: &str = "/simfs/follow.log";

pub struct Delivery {
    /// sequence number of the event at which the item became observable
    pub time: usize,
    pub item: Vec<u8>,
}

/// Items handed out by the iterator (Deliver events).
pub fn deliveries_iter(res: &WorldResult) -> Vec<Delivery> {
    res.log
        .iter()
        .enumerate()
        .filter(|(_, e)| e.kind == EvKind::Deliver)
        .map(|(seq, e)| Delivery { time: seq, item: e.text.clone().unwrap() })
        .collect()
}

/// Newline-terminated records in the captured stdout, each stamped with the write(1) event that completed it.
pub fn stdout_records(res: &WorldResult) -> Vec<Delivery> {
    let mut writes: Vec<(usize, usize)> = Vec::new(); // (seq, stdout length after the write)
    for (seq, e) in res.log.iter().enumerate() {
        if e.kind == EvKind::Write {
            writes.push((seq, e.len));
        }
    }
    let mut out = Vec::new();
    let mut start = 0;
    let mut wi = 0;
    for (p, b) in res.stdout.iter().enumerate() {
        if *b == b'\n' {
            while wi < writes.len() && writes[wi].1 <= p {
                wi += 1;
            }
            let time = if wi < writes.len() { writes[wi].0 } else { res.log.len() };
            out.push(Delivery { time, item: res.stdout[start..p].to_vec() });
            start = p + 1;
        }
    }
    out
}

/// `'text'` -> text for `SELECT input` records in text format.
pub fn unquote(record: &[u8]) -> Option<Vec<u8>> {
    if record.len() >= 2 && record[0] == b'\'' && record[record.len() - 1] == b'\'' {
        Some(record[1..record.len() - 1].to_vec())
    } else {
        None
    }
}

/// Candidate stream start offsets: 0 with --head, else every file length observed from open until
/// the follower's first read (start-up is in progress during that window).
pub fn start_candidates(log: &[Event], head: bool) -> Vec<usize> {
    if head {
        return vec![0];
    }
    let mut out = Vec::new();
    for e in log {
        match e.kind {
            EvKind::Open | EvKind::Seek | EvKind::Stat if e.file == 0 => {
                if !out.contains(&e.len) {
                    out.push(e.len);
                }
            }
            EvKind::Read if e.file == 0 => break,
            // positioning that happens after construction is too late: bytes appended from here on are new
            EvKind::Constructed => break,
            _ => {}
        }
    }
    if out.is_empty() {
        out.push(0);
    }
    out
}

/// max(off+ret) over reads of file 0 strictly before event `time`
fn served_before(log: &[Event], time: usize) -> usize {
    let mut m = 0;
    for e in log.iter().take(time) {
        if e.kind == EvKind::Read && e.file == 0 && e.ret > 0 {
            m = m.max(e.off + e.ret as usize);
        }
    }
    m
}

pub struct FollowVerdict {
    pub class: &'static str,
    pub detail: String,
}

/// The C10 oracle for one start offset. `final_content` is the file at the end of the run.
fn check_from(log: &[Event], deliveries: &[Delivery], final_content: &[u8], x0: usize, finished: bool, live_until: Option<usize>) -> Result<(), FollowVerdict> {
    let stream = &final_content[x0.min(final_content.len())..];
    let expected = complete_lines(stream);
    // end offset (absolute, after the newline) of each expected line
    let mut ends = Vec::with_capacity(expected.len());
    let mut pos = x0;
    for line in &expected {
        pos += line.len() + 1;
        ends.push(pos);
    }
    // safety at every delivery
    for (i, d) in deliveries.iter().enumerate() {
        if i >= expected.len() {
            return Err(FollowVerdict { class: "extra_item", detail: format!("item #{} {:?} delivered but the stream has only {} complete lines", i, String::from_utf8_lossy(&d.item), expected.len()) });
        }
        // a follower attached in the middle of a multi-byte character cannot render the rest of
        // that (already partial) line character for character: its content is not judged
        let midchar_start = i == 0 && x0 < final_content.len() && final_content[x0] & 0xC0 == 0x80;
        if d.item != expected[i] && !midchar_start {
            return Err(FollowVerdict {
                class: "wrong_item",
                detail: format!("item #{} is {:?}, the stream's line #{} is {:?}", i, String::from_utf8_lossy(&d.item), i, String::from_utf8_lossy(&expected[i])),
            });
        }
        let served = served_before(log, d.time);
        if served < ends[i] {
            return Err(FollowVerdict { class: "early_item", detail: format!("item #{} delivered at event {} when only {} bytes had been served (its newline is at byte {})", i, d.time, served, ends[i]) });
        }
    }
    // completeness at quiescent points
    let mut prev_ret: Option<i64> = None;
    for (seq, e) in log.iter().enumerate() {
        if live_until.map(|stop| seq >= stop).unwrap_or(false) {
            break;
        }
        if e.kind == EvKind::Read && e.file == 0 {
            if prev_ret == Some(0) && e.landed == 0 {
                let served = served_before(log, seq);
                let due = ends.iter().filter(|end| **end <= served).count();
                let got = deliveries.iter().filter(|d| d.time < seq).count();
                if got < due {
                    return Err(FollowVerdict { class: "late_item", detail: format!("quiescent at event {}: {} complete lines served, only {} delivered", seq, due, got) });
                }
            }
            if e.ret >= 0 {
                prev_ret = Some(e.ret);
            }
        }
    }
    if finished && deliveries.len() < expected.len() {
        return Err(FollowVerdict {
            class: "missing_item",
            detail: format!("{} complete lines in the stream, {} delivered; first missing: {:?}", expected.len(), deliveries.len(), String::from_utf8_lossy(&expected[deliveries.len()])),
        });
    }
    Ok(())
}

/// C10 oracle over all admissible start offsets. Returns the start offset that satisfied it.
pub fn check_follow(log: &[Event], deliveries: &[Delivery], final_content: &[u8], head: bool, finished: bool) -> Result<usize, FollowVerdict> {
    check_follow_until(log, deliveries, final_content, head, finished, None)
}

/// As `check_follow`; timeliness at quiescent points is demanded only before event `live_until` (the interrupt).
pub fn check_follow_until(log: &[Event], deliveries: &[Delivery], final_content: &[u8], head: bool, finished: bool, live_until: Option<usize>) -> Result<usize, FollowVerdict> {
    let mut first_err = None;
    for x0 in start_candidates(log, head) {
        match check_from(log, deliveries, final_content, x0, finished, live_until) {
            Ok(()) => return Ok(x0),
            Err(v) => {
                if first_err.is_none() {
                    first_err = Some(v);
                }
            }
        }
    }
    Err(first_err.unwrap())
}

/// Final content of file 0 reconstructed from the spec (initial + all appended chunks that landed).
pub fn final_content(initial: &[u8], chunks: &[Vec<u8>], log: &[Event]) -> Vec<u8> {
    let landed: usize = log.iter().map(|e| e.landed).sum();
    let mut out = initial.to_vec();
    let mut left = landed;
    for c in chunks {
        if left == 0 {
            break;
        }
        // chunks land whole
        out.extend_from_slice(c);
        left = left.saturating_sub(c.len());
    }
    out
}
