//! Generators shared by the properties: text content, writer plans and poll/fault schedules.

use crate::rng::Rng;
use crate::seam::{Fault, ReadMode, Step};

pub const CAPS: [usize; 10] = [1, 2, 3, 4, 5, 7, 8, 16, 64, 8192];

#[derive(Clone, Copy, PartialEq, Debug)]
pub enum Alphabet {
    Ascii,
    Utf8,
    CrBlank,
    /// legal but unusual characters: BOM, NUL, Unicode line/paragraph separators, NEL, VT, FF, a CR in mid-line
    Odd,
}

pub fn gen_char(rng: &mut Rng, alphabet: Alphabet) -> &'static str {
    const ASCII: [&str; 20] = ["a", "b", "c", "x", "y", "z", "0", "1", "7", " ", "'", "%", "=", ";", ",", "-", ".", "A", "Q", "_"];
    const MULTI: [&str; 12] = ["é", "ß", "ø", "Ω", "€", "日", "本", "✓", "😀", "𝄞", "🚀", "ü"];
    const BLANK: [&str; 6] = [" ", "\t", "\r", "  ", "a", "b"];
    // incl. the replacement character itself (valid UTF-8) and complete ANSI escape sequences (coloured logs)
    const ODD: [&str; 14] = ["\u{FEFF}", "\0", "\u{2028}", "\u{2029}", "\u{85}", "\x0b", "\x0c", "\r", "\u{1b}", "\u{a0}", "\u{FFFD}", "\x1B[31m", "\x1B[0m", "\x1B[1;32m"];
    match alphabet {
        Alphabet::Odd => {
            if rng.chance(1, 3) {
                *rng.pick(&ODD)
            } else {
                *rng.pick(&ASCII)
            }
        }
        Alphabet::Ascii => *rng.pick(&ASCII),
        Alphabet::Utf8 => {
            if rng.chance(2, 3) {
                *rng.pick(&MULTI)
            } else {
                *rng.pick(&ASCII)
            }
        }
        Alphabet::CrBlank => {
            if rng.chance(1, 2) {
                *rng.pick(&BLANK)
            } else {
                *rng.pick(&ASCII)
            }
        }
    }
}

/// A line body without '\n'. `cap` lets some lines be longer than the reader's buffer.
pub fn gen_line(rng: &mut Rng, alphabet: Alphabet, cap: usize, allow_huge: bool) -> Vec<u8> {
    let regime = rng.below(100);
    let target = if regime < 10 {
        0
    } else if regime < 60 {
        rng.range(1, 12) as usize
    } else if regime < 85 {
        // longer than the buffer
        (cap.min(200) + rng.range(1, 8) as usize).min(260)
    } else if regime < 97 || !allow_huge {
        rng.range(10, 40) as usize
    } else {
        rng.range(8193, 9000) as usize
    };
    let mut out = Vec::new();
    if target > 1000 {
        // long lines: cheap filler with a few interesting characters
        while out.len() < target {
            if rng.chance(1, 50) {
                out.extend_from_slice(gen_char(rng, alphabet).as_bytes());
            } else {
                out.push(b'a' + (out.len() % 23) as u8);
            }
        }
        return out;
    }
    if alphabet == Alphabet::Odd && rng.chance(1, 4) {
        out.extend_from_slice("\u{FEFF}".as_bytes()); // a byte order mark at the start of a line
    }
    while out.len() < target {
        out.extend_from_slice(gen_char(rng, alphabet).as_bytes());
    }
    if alphabet == Alphabet::CrBlank && rng.chance(1, 3) {
        out.push(b'\r');
    }
    out
}

pub fn join_lines(lines: &[Vec<u8>], final_newline: bool) -> Vec<u8> {
    let mut out = Vec::new();
    for (i, line) in lines.iter().enumerate() {
        out.extend_from_slice(line);
        if i + 1 < lines.len() || final_newline {
            out.push(b'\n');
        }
    }
    out
}

/// Cut positions (strictly inside 0..len) for the writer's appends. At most `max_cuts`.
pub fn gen_cuts(rng: &mut Rng, data: &[u8], max_cuts: usize) -> Vec<usize> {
    let len = data.len();
    if len < 2 {
        return Vec::new();
    }
    let mut cuts: Vec<usize> = Vec::new();
    match rng.below(7) {
        0 => {
            // single bytes
            if len - 1 <= max_cuts {
                cuts = (1..len).collect();
            } else {
                let start = rng.below(len - max_cuts);
                cuts = (start + 1..start + 1 + max_cuts).collect();
            }
        }
        1 => {
            let k = rng.range(1, max_cuts.min(len - 1) as i64) as usize;
            for _ in 0..k {
                cuts.push(rng.range(1, len as i64 - 1) as usize);
            }
        }
        2 => {
            // directly before / after each newline
            for (p, b) in data.iter().enumerate() {
                if *b == b'\n' {
                    if p > 0 && rng.chance(2, 3) {
                        cuts.push(p);
                    }
                    if p + 1 < len && rng.chance(2, 3) {
                        cuts.push(p + 1);
                    }
                }
            }
        }
        3 => {
            // whole lines
            for (p, b) in data.iter().enumerate() {
                if *b == b'\n' && p + 1 < len {
                    cuts.push(p + 1);
                }
            }
        }
        4 => {
            // bulk: several lines at once
            for (p, b) in data.iter().enumerate() {
                if *b == b'\n' && p + 1 < len && rng.chance(1, 3) {
                    cuts.push(p + 1);
                }
            }
        }
        5 => {
            // inside multi-byte characters
            for p in 1..len {
                if data[p] & 0xC0 == 0x80 && rng.chance(3, 4) {
                    cuts.push(p);
                }
            }
            if cuts.is_empty() {
                cuts.push(rng.range(1, len as i64 - 1) as usize);
            }
        }
        _ => {}
    }
    cuts.sort();
    cuts.dedup();
    while cuts.len() > max_cuts {
        let i = rng.below(cuts.len());
        cuts.remove(i);
    }
    cuts
}

pub fn cut_chunks(data: &[u8], cuts: &[usize]) -> Vec<Vec<u8>> {
    let mut cs: Vec<usize> = cuts.iter().cloned().filter(|c| *c > 0 && *c < data.len()).collect();
    cs.sort();
    cs.dedup();
    let mut out = Vec::new();
    let mut prev = 0;
    for c in cs {
        out.push(data[prev..c].to_vec());
        prev = c;
    }
    if prev < data.len() {
        out.push(data[prev..].to_vec());
    }
    out
}

pub struct SchedCfg {
    pub poll_gap_pct: usize,
    pub eintr_pct: usize,
    pub short_pct: usize,
}

pub fn gen_sched_cfg(rng: &mut Rng) -> SchedCfg {
    // swarm: each run enables its own subset of fault kinds
    SchedCfg {
        poll_gap_pct: *rng.pick(&[0, 10, 30, 60]),
        eintr_pct: if rng.chance(1, 3) { *rng.pick(&[5, 15, 30]) } else { 0 },
        short_pct: if rng.chance(1, 3) { *rng.pick(&[10, 30, 60]) } else { 0 },
    }
}

/// Per-event script for `n_events` seam events with `chunks` writer chunks pending.
/// The first `quiet_prefix` events (open, start-up seek) mostly see no landing, so that the appends
/// meet the running follower rather than becoming old content.
pub fn gen_steps(rng: &mut Rng, cfg: &SchedCfg, chunks: usize, extra: usize, quiet_prefix: usize) -> Vec<Step> {
    let mut steps = Vec::new();
    let mut remaining = chunks;
    let n = chunks * 2 + extra + quiet_prefix;
    let quiet = !rng.chance(1, 5);
    for i in 0..n {
        let land = if remaining == 0 || rng.below(100) < cfg.poll_gap_pct || (i < quiet_prefix && quiet) {
            0
        } else {
            match rng.below(10) {
                0..=5 => 1,
                6..=7 => 2,
                8 => rng.range(1, 5) as usize,
                _ => usize::MAX,
            }
        };
        let landed = land.min(remaining);
        remaining -= landed;
        let fault = if rng.below(100) < cfg.eintr_pct {
            Fault::Eintr
        } else if rng.below(100) < cfg.short_pct {
            Fault::Short(rng.range(1, 6) as usize)
        } else {
            Fault::None
        };
        steps.push(Step { land, fault });
    }
    steps
}

pub fn gen_read_mode(rng: &mut Rng) -> ReadMode {
    match rng.below(10) {
        0..=5 => ReadMode::Bulk,
        6..=7 => ReadMode::Line,
        8 => ReadMode::Max(1),
        _ => ReadMode::Max(rng.range(2, 9) as usize),
    }
}

/// A line of `len` bytes (ASCII filler with a few multi-byte characters), for regimes beyond every
/// buffer size in the system (64 KiB, 1 MiB).
pub fn gen_giant_line(rng: &mut Rng, len: usize) -> Vec<u8> {
    let mut out = Vec::with_capacity(len + 4);
    while out.len() < len {
        if rng.chance(1, 4000) {
            out.extend_from_slice("€".as_bytes());
        } else {
            out.push(b'a' + (out.len() % 26) as u8);
        }
    }
    out
}
