//! Small helpers: byte-string <-> JSON text encoding, JSON accessors, hashing.

use serde_json::{json, Map, Value as J};

use crate::seam::{Fault, Interrupt, ReadMode, Step};

/// printable ASCII except '%' stays, everything else becomes %HH
pub fn enc(bytes: &[u8]) -> String {
    let mut s = String::with_capacity(bytes.len());
    for &b in bytes {
        if (0x20..0x7f).contains(&b) && b != b'%' {
            s.push(b as char);
        } else {
            s.push_str(&format!("%{:02X}", b));
        }
    }
    s
}

pub fn dec(text: &str) -> Vec<u8> {
    let b = text.as_bytes();
    let mut out = Vec::with_capacity(b.len());
    let mut i = 0;
    while i < b.len() {
        if b[i] == b'%' && i + 3 <= b.len() {
            let h = std::str::from_utf8(&b[i + 1..i + 3]).ok().and_then(|h| u8::from_str_radix(h, 16).ok());
            if let Some(v) = h {
                out.push(v);
                i += 3;
                continue;
            }
        }
        out.push(b[i]);
        i += 1;
    }
    out
}

pub fn jstr(v: &J, key: &str) -> String {
    v.get(key).and_then(|x| x.as_str()).unwrap_or("").to_owned()
}

pub fn jbytes(v: &J, key: &str) -> Vec<u8> {
    dec(&jstr(v, key))
}

pub fn jusize(v: &J, key: &str, default: usize) -> usize {
    v.get(key).and_then(|x| x.as_u64()).map(|x| x as usize).unwrap_or(default)
}

pub fn jbool(v: &J, key: &str) -> bool {
    v.get(key).and_then(|x| x.as_bool()).unwrap_or(false)
}

pub fn jarr<'a>(v: &'a J, key: &str) -> &'a [J] {
    static EMPTY: Vec<J> = Vec::new();
    v.get(key).and_then(|x| x.as_array()).map(|x| x.as_slice()).unwrap_or(&EMPTY)
}

pub fn jusizes(v: &J, key: &str) -> Vec<usize> {
    jarr(v, key).iter().filter_map(|x| x.as_u64()).map(|x| x as usize).collect()
}

pub fn jbytes_list(v: &J, key: &str) -> Vec<Vec<u8>> {
    jarr(v, key).iter().map(|x| dec(x.as_str().unwrap_or(""))).collect()
}

pub fn enc_list(items: &[Vec<u8>]) -> J {
    J::Array(items.iter().map(|x| J::String(enc(x))).collect())
}

pub fn step_to_json(step: &Step) -> J {
    let land: i64 = if step.land == usize::MAX { -1 } else { step.land as i64 };
    match &step.fault {
        Fault::None => json!([land]),
        Fault::Eintr => json!([land, "eintr"]),
        Fault::Eio => json!([land, "eio"]),
        Fault::Short(k) => json!([land, "short", k]),
    }
}

pub fn step_from_json(v: &J) -> Step {
    let a = v.as_array().cloned().unwrap_or_default();
    let land = a.get(0).and_then(|x| x.as_i64()).unwrap_or(-1);
    let land = if land < 0 { usize::MAX } else { land as usize };
    let fault = match a.get(1).and_then(|x| x.as_str()) {
        Some("eintr") => Fault::Eintr,
        Some("eio") => Fault::Eio,
        Some("short") => Fault::Short(a.get(2).and_then(|x| x.as_u64()).unwrap_or(1) as usize),
        _ => Fault::None,
    };
    Step { land, fault }
}

pub fn steps_to_json(steps: &[Step]) -> J {
    J::Array(steps.iter().map(step_to_json).collect())
}

pub fn steps_from_json(v: &J, key: &str) -> Vec<Step> {
    jarr(v, key).iter().map(step_from_json).collect()
}

pub fn read_mode_to_json(m: &ReadMode) -> J {
    match m {
        ReadMode::Bulk => json!("bulk"),
        ReadMode::Line => json!("line"),
        ReadMode::Max(k) => json!(k),
    }
}

pub fn read_mode_from_json(v: &J, key: &str) -> ReadMode {
    match v.get(key) {
        Some(J::String(s)) if s == "line" => ReadMode::Line,
        Some(J::Number(n)) => ReadMode::Max(n.as_u64().unwrap_or(1).max(1) as usize),
        _ => ReadMode::Bulk,
    }
}

pub fn interrupt_to_json(i: &Option<Interrupt>) -> J {
    match i {
        None => J::Null,
        Some(Interrupt::AtEvent(e)) => json!(["event", e]),
        Some(Interrupt::AtPrint(j)) => json!(["print", j]),
    }
}

pub fn interrupt_from_json(v: &J, key: &str) -> Option<Interrupt> {
    let a = v.get(key)?.as_array()?;
    let n = a.get(1)?.as_u64()? as usize;
    match a.get(0)?.as_str()? {
        "event" => Some(Interrupt::AtEvent(n)),
        "print" => Some(Interrupt::AtPrint(n)),
        _ => None,
    }
}

pub fn keys_to_json(keys: &[[u8; 16]]) -> J {
    J::Array(keys.iter().map(|k| J::String(k.iter().map(|b| format!("{:02x}", b)).collect::<String>())).collect())
}

pub fn keys_from_json(v: &J, key: &str) -> Vec<[u8; 16]> {
    jarr(v, key)
        .iter()
        .map(|x| {
            let s = x.as_str().unwrap_or("");
            let mut k = [0u8; 16];
            for i in 0..16 {
                if let Some(h) = s.get(2 * i..2 * i + 2) {
                    k[i] = u8::from_str_radix(h, 16).unwrap_or(0);
                }
            }
            k
        })
        .collect()
}

pub fn fnv(bytes: &[u8]) -> u64 {
    let mut h: u64 = 0xcbf29ce484222325;
    for b in bytes {
        h ^= *b as u64;
        h = h.wrapping_mul(0x100000001b3);
    }
    h
}

pub fn fnv_mix(a: u64, b: u64) -> u64 {
    let mut h = a ^ 0x9E3779B97F4A7C15;
    h = (h ^ b).wrapping_mul(0x100000001b3);
    h ^ (h >> 31)
}

pub fn obj() -> Map<String, J> {
    Map::new()
}

/// Lines of a byte stream by the reference model: split at '\n', last segment kept if non-empty.
pub fn model_lines(data: &[u8]) -> Vec<Vec<u8>> {
    let mut out: Vec<Vec<u8>> = data.split(|b| *b == b'\n').map(|s| s.to_vec()).collect();
    if let Some(last) = out.last() {
        if last.is_empty() {
            out.pop();
        }
    }
    out
}

/// Newline-terminated segments only (what a follower may deliver).
pub fn complete_lines(data: &[u8]) -> Vec<Vec<u8>> {
    let mut out: Vec<Vec<u8>> = data.split(|b| *b == b'\n').map(|s| s.to_vec()).collect();
    out.pop();
    out
}

pub fn strip_cr(line: &[u8]) -> &[u8] {
    if line.last() == Some(&b'\r') {
        &line[..line.len() - 1]
    } else {
        line
    }
}
