//! Generic case minimisation: structural candidates over the JSON case (drop array elements, drop
//! lines / shorten byte strings, shrink numbers), accepted while the same violation class persists.

use serde_json::Value as J;

use crate::util::{dec, enc};

/// Candidates for one byte-string: without each line, each line halved, non-ASCII replaced, shorter tails.
pub fn shrink_bytes(data: &[u8]) -> Vec<Vec<u8>> {
    let mut out = Vec::new();
    if data.is_empty() {
        return out;
    }
    out.push(Vec::new());
    // split into lines keeping terminators
    let mut lines: Vec<&[u8]> = Vec::new();
    let mut start = 0;
    for (i, b) in data.iter().enumerate() {
        if *b == b'\n' {
            lines.push(&data[start..=i]);
            start = i + 1;
        }
    }
    if start < data.len() {
        lines.push(&data[start..]);
    }
    if lines.len() > 1 {
        // drop halves, quarters, ... (delta debugging), then single lines when there are few
        let mut parts = 2;
        while parts <= lines.len() && parts <= 16 {
            let size = (lines.len() + parts - 1) / parts;
            for p in 0..parts {
                let (a, b) = (p * size, ((p + 1) * size).min(lines.len()));
                if a >= b {
                    continue;
                }
                // keep only this part / drop only this part
                if parts == 2 {
                    out.push(lines[a..b].concat());
                }
                let mut v = Vec::new();
                for (i, l) in lines.iter().enumerate() {
                    if i < a || i >= b {
                        v.extend_from_slice(l);
                    }
                }
                out.push(v);
            }
            parts *= 2;
        }
        if lines.len() <= 32 {
            for skip in 0..lines.len() {
                let mut v = Vec::new();
                for (i, l) in lines.iter().enumerate() {
                    if i != skip {
                        v.extend_from_slice(l);
                    }
                }
                out.push(v);
            }
        }
    }
    // shorten each line (only when there are few: line-level reduction comes first)
    for (li, line) in lines.iter().enumerate().take(if lines.len() <= 32 { lines.len() } else { 0 }) {
        let body_len = if line.last() == Some(&b'\n') { line.len() - 1 } else { line.len() };
        if body_len == 0 {
            continue;
        }
        let body = &line[..body_len];
        let mut variants: Vec<Vec<u8>> = Vec::new();
        if let Ok(text) = std::str::from_utf8(body) {
            let chars: Vec<char> = text.chars().collect();
            if chars.len() > 1 {
                variants.push(chars[..chars.len() / 2].iter().collect::<String>().into_bytes());
                variants.push(chars[chars.len() / 2..].iter().collect::<String>().into_bytes());
                if chars.len() <= 24 {
                    for skip in 0..chars.len() {
                        variants.push(chars.iter().enumerate().filter(|(i, _)| *i != skip).map(|(_, c)| *c).collect::<String>().into_bytes());
                    }
                }
            }
            if chars.iter().any(|c| *c != 'a') && chars.len() <= 64 {
                // simplify characters one at a time (from the left)
                for i in 0..chars.len() {
                    if chars[i] != 'a' {
                        let mut c2 = chars.clone();
                        c2[i] = 'a';
                        variants.push(c2.iter().collect::<String>().into_bytes());
                        break;
                    }
                }
            }
        } else if body.len() > 1 {
            variants.push(body[..body.len() / 2].to_vec());
            variants.push(body[body.len() / 2..].to_vec());
        }
        for v in variants {
            let mut whole = Vec::new();
            for (i, l) in lines.iter().enumerate() {
                if i == li {
                    whole.extend_from_slice(&v);
                    if line.last() == Some(&b'\n') {
                        whole.push(b'\n');
                    }
                } else {
                    whole.extend_from_slice(l);
                }
            }
            out.push(whole);
        }
    }
    // drop the final newline / unterminated tail
    if data.last() == Some(&b'\n') {
        out.push(data[..data.len() - 1].to_vec());
    }
    out
}

pub fn with_field(case: &J, key: &str, value: J) -> J {
    let mut c = case.clone();
    if let Some(o) = c.as_object_mut() {
        o.insert(key.to_owned(), value);
    }
    c
}

pub fn bytes_field(case: &J, key: &str, out: &mut Vec<J>) {
    if let Some(s) = case.get(key).and_then(|x| x.as_str()) {
        for cand in shrink_bytes(&dec(s)) {
            out.push(with_field(case, key, J::String(enc(&cand))));
        }
    }
}

/// Array field: drop halves, drop single elements.
pub fn array_field(case: &J, key: &str, out: &mut Vec<J>) {
    if let Some(a) = case.get(key).and_then(|x| x.as_array()) {
        if a.is_empty() {
            return;
        }
        out.push(with_field(case, key, J::Array(Vec::new())));
        if a.len() > 1 {
            let half = a.len() / 2;
            out.push(with_field(case, key, J::Array(a[..half].to_vec())));
            out.push(with_field(case, key, J::Array(a[half..].to_vec())));
            if a.len() <= 48 {
                for skip in 0..a.len() {
                    let v: Vec<J> = a.iter().enumerate().filter(|(i, _)| *i != skip).map(|(_, x)| x.clone()).collect();
                    out.push(with_field(case, key, J::Array(v)));
                }
            } else {
                for parts in [4usize, 8, 16] {
                    let size = (a.len() + parts - 1) / parts;
                    for p in 0..parts {
                        let (lo, hi) = (p * size, ((p + 1) * size).min(a.len()));
                        if lo < hi {
                            let v: Vec<J> = a.iter().enumerate().filter(|(i, _)| *i < lo || *i >= hi).map(|(_, x)| x.clone()).collect();
                            out.push(with_field(case, key, J::Array(v)));
                        }
                    }
                }
            }
        }
    }
}

/// Array of byte strings: array shrinking plus shrinking each element.
pub fn bytes_array_field(case: &J, key: &str, out: &mut Vec<J>) {
    array_field(case, key, out);
    if let Some(a) = case.get(key).and_then(|x| x.as_array()) {
        for (i, el) in a.iter().enumerate() {
            if let Some(s) = el.as_str() {
                for cand in shrink_bytes(&dec(s)) {
                    let mut v = a.clone();
                    v[i] = J::String(enc(&cand));
                    out.push(with_field(case, key, J::Array(v)));
                }
            }
        }
    }
}

/// Moves a number monotonically toward `target` (so minimisation cannot oscillate).
pub fn num_field(case: &J, key: &str, target: i64, out: &mut Vec<J>) {
    if let Some(n) = case.get(key).and_then(|x| x.as_i64()) {
        if n == target {
            return;
        }
        out.push(with_field(case, key, J::from(target)));
        let mid = (n + target) / 2;
        if mid != n && mid != target {
            out.push(with_field(case, key, J::from(mid)));
        }
        let step = if n > target { n - 1 } else { n + 1 };
        if step != target && step != mid {
            out.push(with_field(case, key, J::from(step)));
        }
    }
}

pub fn bool_field(case: &J, key: &str, target: bool, out: &mut Vec<J>) {
    if let Some(b) = case.get(key).and_then(|x| x.as_bool()) {
        if b != target {
            out.push(with_field(case, key, J::Bool(target)));
        }
    }
}

pub fn set_field(case: &J, key: &str, value: J, out: &mut Vec<J>) {
    if case.get(key) != Some(&value) {
        out.push(with_field(case, key, value));
    }
}

/// Steps: remove entries, drop faults, simplify landings.
pub fn steps_field(case: &J, key: &str, out: &mut Vec<J>) {
    array_field(case, key, out);
    if let Some(a) = case.get(key).and_then(|x| x.as_array()) {
        for (i, el) in a.iter().enumerate() {
            if let Some(parts) = el.as_array() {
                if parts.len() > 1 {
                    let mut v = a.clone();
                    v[i] = J::Array(vec![parts[0].clone()]);
                    out.push(with_field(case, key, J::Array(v)));
                }
                if parts.get(0).and_then(|x| x.as_i64()).map(|x| x != 1).unwrap_or(false) {
                    let mut v = a.clone();
                    let mut p = parts.clone();
                    p[0] = J::from(1);
                    v[i] = J::Array(p);
                    out.push(with_field(case, key, J::Array(v)));
                }
            }
        }
    }
}
