//! The generated workload family: table definitions (text, parsed by the real parser), log lines
//! built field-wise so that admission is known by construction, and statement templates.

use crate::rng::Rng;

pub const JOINED_PATH: &str = "/simfs/joined.log";

#[derive(Clone, Copy, PartialEq, Debug)]
pub enum Variant {
    /// one anchored capture pattern `^E k;n;r;b[ date]$` with optional groups
    Capture,
    /// `line = split ';'`
    Split,
    /// three independent unanchored patterns k=.. n=.. r=..
    Multi,
    /// JSON-path columns over lines that are JSON objects
    Json,
}

#[derive(Clone, Copy, PartialEq, Debug)]
pub enum KMod {
    None,
    NotNull,
    Default,
    Trim,
}

#[derive(Clone, Copy, PartialEq, Debug)]
pub enum NMod {
    None,
    NotNull,
    Default,
}

#[derive(Clone, Debug)]
pub struct TableCfg {
    pub variant: Variant,
    pub kmod: KMod,
    pub nmod: NMod,
    pub with_b: bool,
    /// `b BOOLEAN NOT NULL`: a BOOLEAN column is NULL where its pattern does not match the line at all
    pub b_not_null: bool,
    pub with_ts: bool,
    /// column order: permutation of the available columns
    pub order: Vec<&'static str>,
}

impl TableCfg {
    pub fn columns(&self) -> Vec<&'static str> {
        self.order.clone()
    }

    pub fn has(&self, col: &str) -> bool {
        self.order.iter().any(|c| *c == col)
    }
}

pub fn gen_table_cfg(rng: &mut Rng) -> TableCfg {
    let variant = *rng.pick(&[Variant::Capture, Variant::Capture, Variant::Capture, Variant::Split, Variant::Multi, Variant::Json]);
    let kmod = *rng.pick(&[KMod::None, KMod::None, KMod::NotNull, KMod::Default, KMod::Trim]);
    let nmod = *rng.pick(&[NMod::None, NMod::None, NMod::NotNull, NMod::Default]);
    let with_b = (variant == Variant::Capture || variant == Variant::Multi) && rng.chance(1, 3);
    let b_not_null = with_b && rng.chance(1, 3);
    let with_ts = variant == Variant::Capture && rng.chance(1, 4);
    let mut order: Vec<&'static str> = vec!["k", "n", "r"];
    if with_b {
        order.push("b");
    }
    if with_ts {
        order.push("d");
    }
    if rng.chance(1, 2) {
        rng.shuffle(&mut order);
    }
    TableCfg { variant, kmod, nmod, with_b, b_not_null, with_ts, order }
}

/// A plain configuration: capture pattern, no modifiers.
pub fn plain_table_cfg() -> TableCfg {
    TableCfg { variant: Variant::Capture, kmod: KMod::None, nmod: NMod::None, with_b: false, b_not_null: false, with_ts: false, order: vec!["k", "n", "r"] }
}

pub fn table_defs(cfg: &TableCfg) -> String {
    let kmod = match cfg.kmod {
        KMod::None => "",
        KMod::NotNull => " NOT NULL",
        KMod::Default => " DEFAULT 'zz'",
        KMod::Trim => " TRIM",
    };
    let nmod = match cfg.nmod {
        NMod::None => "",
        NMod::NotNull => " NOT NULL",
        NMod::Default => " DEFAULT 7",
    };
    let bmod = if cfg.b_not_null { " NOT NULL" } else { "" };
    let mut cols = Vec::new();
    match cfg.variant {
        Variant::Capture => {
            for c in &cfg.order {
                cols.push(match *c {
                    "k" => format!("line[1] => k TEXT{}", kmod),
                    "n" => format!("line[2] => n INT{}", nmod),
                    "r" => "line[3] => r REAL".to_owned(),
                    "b" => format!("line[4] => b BOOLEAN{}", bmod),
                    "d" => "line[5], line[6], line[7], line[8], line[9], line[10], line[11] => d TIMESTAMP".to_owned(),
                    _ => unreachable!(),
                });
            }
            format!(
                "CREATE TABLE t(line = '^E (?:k=([a-z ]+))?;(?:n=(-?[0-9a-z]+))?;(?:r=(-?[0-9.]+))?;(x)?(?: ([0-9]{{4}})-([0-9]{{2}})-([0-9]{{2}})T([0-9]{{2}}):([0-9]{{2}}):([0-9]{{2}})\\.([0-9]{{3}}))?$', {});",
                cols.join(", ")
            )
        }
        Variant::Split => {
            for c in &cfg.order {
                cols.push(match *c {
                    "k" => format!("line[1] => k TEXT{}", kmod),
                    "n" => format!("line[2] => n INT{}", nmod),
                    "r" => "line[3] => r REAL".to_owned(),
                    _ => unreachable!(),
                });
            }
            format!("CREATE TABLE t(line = split ';', {});", cols.join(", "))
        }
        Variant::Json => {
            for c in &cfg.order {
                cols.push(match *c {
                    "k" => format!("{{ .k }} => k TEXT{}", kmod),
                    "n" => format!("{{ .v.n }} => n INT{}", nmod),
                    "r" => "{ .v.r[0] } => r REAL".to_owned(),
                    _ => unreachable!(),
                });
            }
            format!("CREATE TABLE t({});", cols.join(", "))
        }
        Variant::Multi => {
            for c in &cfg.order {
                cols.push(match *c {
                    "k" => format!("pk[1] => k TEXT{}", kmod),
                    "n" => format!("pn[1] => n INT{}", nmod),
                    "r" => "pr[1] => r REAL".to_owned(),
                    "b" => format!("pb[1] => b BOOLEAN{}", bmod),
                    _ => unreachable!(),
                });
            }
            format!("CREATE TABLE t(pk = 'k=([a-z ]+)', pn = 'n=(-?[0-9a-z]+)', pr = 'r=(-?[0-9.]+)', pb = 'b=(y)', {});", cols.join(", "))
        }
    }
}

pub const JOINED_DEFS: &str = "CREATE TABLE u(line = '^J (?:k=([a-z]+))?;(?:m=(-?[0-9]+))?;(?:w=([a-z]+))?$', line[1] => k TEXT, line[2] => m INT, line[3] => w TEXT);";

#[derive(Clone, Debug)]
pub struct LineSpec {
    /// None = field absent
    pub k: Option<String>,
    /// raw text of the n field (may be non-numeric)
    pub n: Option<String>,
    /// k/4 rendered
    pub r: Option<String>,
    pub b: bool,
    /// year, month, day, hour, minute, second, millisecond
    pub d: Option<(i32, u32, u32, u32, u32, u32, u32)>,
}

pub const KEYS: [&str; 5] = ["a", "b", "c", "dd", "e"];

pub fn fmt_quarter(q: i64) -> String {
    // exact decimal rendering of q/4
    let neg = q < 0;
    let a = q.abs();
    let whole = a / 4;
    let frac = match a % 4 {
        0 => "0",
        1 => "25",
        2 => "5",
        _ => "75",
    };
    format!("{}{}.{}", if neg { "-" } else { "" }, whole, frac)
}

pub struct LineCfg {
    pub null_pct: usize,
    pub bad_n_pct: usize,
    pub n_range: i64,
    /// number of distinct key values (the first five are KEYS, further ones are generated names)
    pub keys: usize,
    /// percentage of REAL values that are a signed zero (0.0 / -0.0 compare equal but print differently)
    pub zero_pct: usize,
}

pub fn gen_line_cfg(rng: &mut Rng) -> LineCfg {
    LineCfg { null_pct: *rng.pick(&[0, 10, 25, 50]), bad_n_pct: *rng.pick(&[0, 0, 10]), n_range: *rng.pick(&[3, 10, 1000, 1_000_000]), keys: rng.range(1, 5) as usize, zero_pct: 0 }
}

/// i-th key value: lower-case letters only (the table patterns accept `[a-z ]+`)
pub fn key_name(i: usize) -> String {
    if i < KEYS.len() {
        return KEYS[i].to_owned();
    }
    let j = i - KEYS.len();
    format!("k{}{}", (b'a' + (j / 26 % 26) as u8) as char, (b'a' + (j % 26) as u8) as char)
}

pub fn gen_line_spec(rng: &mut Rng, cfg: &TableCfg, lc: &LineCfg) -> LineSpec {
    let k = if rng.below(100) < lc.null_pct {
        None
    } else {
        let mut k = key_name(rng.below(lc.keys.max(1)));
        if cfg.kmod == KMod::Trim && rng.chance(1, 2) {
            k = format!("{}{}{}", if rng.chance(1, 2) { " " } else { "" }, k, if rng.chance(1, 2) { "  " } else { "" });
        }
        Some(k)
    };
    let n = if rng.below(100) < lc.null_pct {
        None
    } else if rng.below(100) < lc.bad_n_pct {
        Some("1x".to_owned())
    } else {
        Some(format!("{}", rng.range(-lc.n_range, lc.n_range)))
    };
    let r = if rng.below(100) < lc.null_pct {
        None
    } else if rng.below(100) < lc.zero_pct {
        Some(rng.pick(&["0.0", "-0.0"]).to_string())
    } else {
        Some(fmt_quarter(rng.range(-40, 40)))
    };
    let b = rng.chance(1, 2);
    let d = if cfg.with_ts && rng.below(100) >= lc.null_pct {
        if rng.chance(1, 2) {
            // timestamps that share their whole second and differ in the fraction only
            Some((2021, 3, 4, 10, 0, rng.below(2) as u32, *rng.pick(&[0u32, 250, 400, 999])))
        } else {
            Some((2020 + rng.below(3) as i32, 1 + rng.below(12) as u32, 1 + rng.below(28) as u32, rng.below(24) as u32, rng.below(60) as u32, rng.below(60) as u32, rng.below(1000) as u32))
        }
    } else {
        None
    };
    LineSpec { k, n, r, b, d }
}

pub fn render_line(cfg: &TableCfg, s: &LineSpec) -> String {
    match cfg.variant {
        Variant::Capture => {
            let mut out = String::from("E ");
            if let Some(k) = &s.k {
                out.push_str(&format!("k={}", k));
            }
            out.push(';');
            if let Some(n) = &s.n {
                out.push_str(&format!("n={}", n));
            }
            out.push(';');
            if let Some(r) = &s.r {
                out.push_str(&format!("r={}", r));
            }
            out.push(';');
            if s.b {
                out.push('x');
            }
            if let Some((y, m, d, h, mi, sec, ms)) = s.d {
                out.push_str(&format!(" {:04}-{:02}-{:02}T{:02}:{:02}:{:02}.{:03}", y, m, d, h, mi, sec, ms));
            }
            out
        }
        Variant::Split => {
            // fields are positional: an absent n/r with a later field present is an empty field
            let k = s.k.clone().unwrap_or_default();
            match (&s.n, &s.r) {
                (None, None) => k,
                (Some(n), None) => format!("{};{}", k, n),
                (n, Some(r)) => format!("{};{};{}", k, n.clone().unwrap_or_default(), r),
            }
        }
        Variant::Json => {
            // {"k":"a","v":{"n":3,"r":[0.25]}} ; an unparsable n is sent as a JSON string
            let mut fields = Vec::new();
            if let Some(k) = &s.k {
                fields.push(format!("\"k\":\"{}\"", k));
            }
            let mut inner = Vec::new();
            if let Some(n) = &s.n {
                if n.parse::<i64>().is_ok() {
                    inner.push(format!("\"n\":{}", n));
                } else {
                    inner.push(format!("\"n\":\"{}\"", n));
                }
            }
            if let Some(r) = &s.r {
                inner.push(format!("\"r\":[{}]", r));
            }
            fields.push(format!("\"v\":{{{}}}", inner.join(",")));
            format!("{{{}}}", fields.join(","))
        }
        Variant::Multi => {
            let mut parts = Vec::new();
            parts.push("ev".to_owned());
            if let Some(k) = &s.k {
                parts.push(format!("k={}", k));
            }
            if let Some(n) = &s.n {
                parts.push(format!("n={}", n));
            }
            if let Some(r) = &s.r {
                parts.push(format!("r={}", r));
            }
            if cfg.with_b && s.b {
                parts.push("b=y".to_owned());
            }
            parts.join(" | ")
        }
    }
}

/// Expected typed cell, rendered the way `{:?}` renders `Value` would be fragile; we use a small own form.
#[derive(Clone, Debug, PartialEq)]
pub enum Cell {
    Null,
    Int(i64),
    Real(f64),
    Bool(bool),
    Text(String),
    Date(i32, u32, u32, u32, u32, u32, u32),
}

impl Cell {
    pub fn is_null(&self) -> bool {
        *self == Cell::Null
    }

    /// the text sqlgrep prints for this value (text output format)
    pub fn display(&self) -> String {
        match self {
            Cell::Null => "NULL".to_owned(),
            Cell::Int(x) => format!("{}", x),
            Cell::Real(x) => format!("{:.2}", x),
            Cell::Bool(x) => format!("{}", x),
            Cell::Text(x) => format!("'{}'", x),
            Cell::Date(y, m, d, h, mi, sec, ms) => format!("{:04}-{:02}-{:02} {:02}:{:02}:{:02}.{:03}", y, m, d, h, mi, sec, ms),
        }
    }
}

/// The row the documented extraction rules give for a line built from `s` (None = not admitted).
pub fn expected_row(cfg: &TableCfg, s: &LineSpec) -> Option<Vec<Cell>> {
    // which groups take part
    let (k_group, n_group, r_group): (Option<String>, Option<String>, Option<String>) = match cfg.variant {
        Variant::Capture => (s.k.clone(), s.n.clone(), s.r.clone()),
        // JSON: an absent path gives the DEFAULT, a present value of the wrong JSON type gives NULL
        Variant::Json => (s.k.clone(), s.n.clone(), s.r.clone()),
        Variant::Multi => {
            // `k=([a-z ]+)` is greedy over blanks: the rendered separator " | " starts with a blank
            let k = s.k.clone().map(|k| if s.n.is_some() || s.r.is_some() || (cfg.with_b && s.b) { format!("{} ", k) } else { k });
            (k, s.n.clone(), s.r.clone())
        }
        Variant::Split => {
            let k = Some(s.k.clone().unwrap_or_default());
            match (&s.n, &s.r) {
                (None, None) => (k, None, None),
                (Some(n), None) => (k, Some(n.clone()), None),
                (n, Some(r)) => (k, Some(n.clone().unwrap_or_default()), Some(r.clone())),
            }
        }
    };
    let k_val = match k_group {
        Some(k) => Cell::Text(if cfg.kmod == KMod::Trim { k.trim().to_owned() } else { k }),
        None => {
            if cfg.kmod == KMod::Default {
                Cell::Text("zz".to_owned())
            } else {
                Cell::Null
            }
        }
    };
    let n_val = match n_group {
        Some(n) => n.parse::<i64>().map(Cell::Int).unwrap_or(Cell::Null),
        None => {
            if cfg.nmod == NMod::Default {
                Cell::Int(7)
            } else {
                Cell::Null
            }
        }
    };
    let r_val = match r_group {
        Some(r) => r.parse::<f64>().map(Cell::Real).unwrap_or(Cell::Null),
        None => Cell::Null,
    };
    let mut row = Vec::new();
    for c in &cfg.order {
        let cell = match *c {
            "k" => k_val.clone(),
            "n" => n_val.clone(),
            "r" => r_val.clone(),
            // own pattern (multi): NULL where that pattern does not match; optional group of the one pattern: true/false
            "b" => if cfg.variant == Variant::Multi && !s.b { Cell::Null } else { Cell::Bool(s.b) },
            "d" => match s.d {
                Some((y, m, d, h, mi, sec, ms)) => Cell::Date(y, m, d, h, mi, sec, ms),
                // no date group: year 0, month 1, day 1 is what the assembly rule gives when groups are absent -> see below
                None => Cell::Null,
            },
            _ => unreachable!(),
        };
        row.push(cell);
    }
    if cfg.kmod == KMod::NotNull && k_val.is_null() {
        return None;
    }
    if cfg.nmod == NMod::NotNull && n_val.is_null() {
        return None;
    }
    if cfg.with_b && cfg.b_not_null && cfg.variant == Variant::Multi && !s.b {
        return None;
    }
    if row.iter().all(|c| c.is_null()) {
        return None;
    }
    Some(row)
}

/// The row of a line on which no pattern matches / that is not a JSON object (not for split tables, where the
/// line itself is field 1): every column is its DEFAULT or NULL - BOOLEAN and TIMESTAMP columns included.
pub fn expected_row_unmatched(cfg: &TableCfg) -> Option<Vec<Cell>> {
    if cfg.variant == Variant::Split {
        return None;
    }
    let k_val = if cfg.kmod == KMod::Default { Cell::Text("zz".to_owned()) } else { Cell::Null };
    let n_val = if cfg.nmod == NMod::Default { Cell::Int(7) } else { Cell::Null };
    if cfg.kmod == KMod::NotNull || cfg.nmod == NMod::NotNull || (cfg.with_b && cfg.b_not_null) {
        return None;
    }
    let row: Vec<Cell> = cfg.order.iter().map(|c| match *c { "k" => k_val.clone(), "n" => n_val.clone(), _ => Cell::Null }).collect();
    if row.iter().all(|c| c.is_null()) {
        return None;
    }
    Some(row)
}

/// Text that matches none of the generated patterns and is not a JSON object.
pub const UNMATCHED_TEXT: [&str; 8] = ["", "   ", "plain text line", "{", "[1,2]", "null", "E", "zzz 42"];

/// Lines that by the documented rule can never become a row of table `t` under `cfg`.
/// (A declared DEFAULT counts as a value: with a DEFAULT column every line is a row unless a NOT NULL
/// column stays NULL.)
pub fn noise_pool(cfg: &TableCfg) -> Vec<Vec<u8>> {
    let has_default = cfg.kmod == KMod::Default || cfg.nmod == NMod::Default;
    let k_required = cfg.kmod == KMod::NotNull;
    let n_required = cfg.nmod == NMod::NotNull;
    // a line on which no pattern matches: every column is its DEFAULT or NULL
    let b_required = cfg.with_b && cfg.b_not_null;
    let unmatched_is_noise = !has_default || k_required || n_required || b_required;
    let mut pool: Vec<Vec<u8>> = Vec::new();
    match cfg.variant {
        Variant::Capture => {
            if unmatched_is_noise {
                for l in [
                    &b""[..],
                    b"   ",
                    b"\t",
                    b"garbage line without structure",
                    b"E ",
                    b"E k",
                    b"e k=a;n=1;r=0.5;",
                    b"J k=a;m=1;w=x",
                    b"E k=a;n=1;r=0.5",
                    b"E k=a;n=1",
                    b"X k=a;n=1;r=0.5;",
                    b"E k=A;n=1;r=0.5;",
                    b"E k=a;n=1;r=0.5;y",
                    b" E k=a;n=1;r=0.5;",
                ] {
                    pool.push(l.to_vec());
                }
                pool.push("zażółć gęślą jaźń ✓".as_bytes().to_vec());
                pool.push(vec![b'#'; 300]);
            }
            // the pattern matches but no column gets a value
            // (a BOOLEAN column on an optional group of a matching pattern is false, not NULL: NOT NULL on it is met)
            if k_required || n_required || (!cfg.with_b && !has_default) {
                pool.push(b"E ;;;".to_vec());
            }
            if n_required {
                pool.push(b"E k=a;;r=0.5;".to_vec());
                pool.push(b"E k=a;n=1x;r=0.5;".to_vec());
            }
            if k_required {
                pool.push(b"E ;n=3;r=0.5;".to_vec());
            }
        }
        Variant::Split => {
            // field 1 always exists, so only a failing NOT NULL n makes a line invisible
            if n_required {
                for l in [&b""[..], b"a", b"a;", b"a;x1;0.5", b"garbage", b"a;;0.25"] {
                    pool.push(l.to_vec());
                }
            }
        }
        Variant::Json => {
            if unmatched_is_noise {
                for l in [&b""[..], b"  ", b"not json at all", b"{", b"[1,2,3]", b"{\"K\":\"a\"}", b"{\"v\":{}}", b"{\"k\":5,\"v\":{\"n\":\"x\",\"r\":[\"y\"]}}", b"{\"k\":\"a\"} trailing", b"null"] {
                    pool.push(l.to_vec());
                }
            }
            if n_required {
                pool.push(b"{\"k\":\"a\",\"v\":{\"r\":[0.5]}}".to_vec());
                pool.push(b"{\"k\":\"a\",\"v\":{\"n\":1.5}}".to_vec());
            }
            if k_required {
                pool.push(b"{\"v\":{\"n\":3}}".to_vec());
            }
        }
        Variant::Multi => {
            if unmatched_is_noise {
                for l in [&b""[..], b"  ", b"nothing here", b"K=a N=1"] {
                    pool.push(l.to_vec());
                }
                pool.push("k=✓".as_bytes().to_vec());
            }
            if n_required {
                pool.push(b"ev | k=a | r=0.5".to_vec());
                pool.push(b"k=a".to_vec());
            }
            if k_required {
                pool.push(b"ev | n=5".to_vec());
            }
            if b_required {
                // the BOOLEAN column's own pattern does not match: it is NULL although other columns have values
                pool.push(b"ev | k=a | n=1 | r=0.5".to_vec());
                pool.push(b"k=a".to_vec());
                pool.push(b"ev | n=5 | b=n".to_vec());
            }
        }
    }
    pool
}

/// Whether a line of arbitrary garbage (matching no pattern, not JSON, no separator) is non-admitted under `cfg`.
pub fn garbage_is_noise(cfg: &TableCfg) -> bool {
    let has_default = cfg.kmod == KMod::Default || cfg.nmod == NMod::Default;
    let k_required = cfg.kmod == KMod::NotNull;
    let n_required = cfg.nmod == NMod::NotNull;
    match cfg.variant {
        // field 1 of a split table always exists
        Variant::Split => n_required,
        _ => !has_default || k_required || n_required || (cfg.with_b && cfg.b_not_null),
    }
}

pub fn gen_noise(rng: &mut Rng, cfg: &TableCfg) -> Vec<u8> {
    let pool = noise_pool(cfg);
    if pool.is_empty() {
        return Vec::new();
    }
    rng.pick(&pool).clone()
}

/// Whether non-admitted lines exist at all for this configuration.
pub fn noise_possible(cfg: &TableCfg) -> bool {
    !noise_pool(cfg).is_empty()
}

pub fn gen_joined_line(rng: &mut Rng, keys: usize, null_pct: usize) -> String {
    let k = if rng.below(100) < null_pct { String::new() } else { format!("k={}", key_name(rng.below(keys.max(1)))) };
    let m = if rng.below(100) < null_pct { String::new() } else { format!("m={}", rng.range(-3, 3)) };
    let w = if rng.below(100) < null_pct { String::new() } else { format!("w={}", *rng.pick(&["p", "q", "rr"])) };
    format!("J {};{};{}", k, m, w)
}

// ------------------------------------------------------------------------------------------------
// statements

#[derive(Clone, Debug, Default)]
pub struct Query {
    pub distinct: bool,
    pub projections: Vec<String>,
    pub join: Option<String>,
    pub filter: Option<String>,
    pub group_by: Vec<String>,
    pub having: Option<String>,
    pub limit: Option<usize>,
    pub aggregate: bool,
}

impl Query {
    pub fn text(&self) -> String {
        let mut s = String::from("SELECT ");
        if self.distinct {
            s.push_str("DISTINCT ");
        }
        s.push_str(&self.projections.join(", "));
        s.push_str(" FROM t");
        if let Some(j) = &self.join {
            s.push(' ');
            s.push_str(j);
        }
        if let Some(f) = &self.filter {
            s.push_str(" WHERE ");
            s.push_str(f);
        }
        if !self.group_by.is_empty() {
            s.push_str(" GROUP BY ");
            s.push_str(&self.group_by.join(", "));
        }
        if let Some(h) = &self.having {
            s.push_str(" HAVING ");
            s.push_str(h);
        }
        if let Some(l) = self.limit {
            s.push_str(&format!(" LIMIT {}", l));
        }
        s
    }

    /// keeps state across lines (aggregation, DISTINCT memory)
    pub fn stateful(&self) -> bool {
        self.aggregate || self.distinct
    }

    pub fn shape(&self) -> String {
        format!(
            "{}{}{}{}{}{}|{}",
            if self.aggregate { "A" } else { "S" },
            if self.distinct { "D" } else { "" },
            if self.join.is_some() { "J" } else { "" },
            if self.filter.is_some() { "W" } else { "" },
            if self.having.is_some() { "H" } else { "" },
            self.group_by.len(),
            self.projections.join(",")
        )
    }
}

pub fn gen_filter(rng: &mut Rng, cfg: &TableCfg, prefix: &str) -> String {
    // constants are kept non-negative: "n = -2" does not parse (operator "=-"), which is not this family's subject
    let c = rng.range(0, 3);
    let key = *rng.pick(&KEYS[..3]);
    let mut pool = vec![
        format!("{}n > {}", prefix, c),
        format!("{}n <= {}", prefix, c),
        format!("{}n IS NOT NULL", prefix),
        format!("{}n IS NULL OR {}r > 0.5", prefix, prefix),
        format!("{}k = '{}'", prefix, key),
        format!("{}k != '{}' AND {}n >= {}", prefix, key, prefix, c),
        format!("{}r >= 0.0", prefix),
        format!("NOT ({}n = {})", prefix, c),
        format!("{}n IN ({}, {})", prefix, c, c + 1),
    ];
    pool.push(format!("CASE WHEN {}n > {} THEN true ELSE {}r < 1.0 END", prefix, c, prefix));
    pool.push(format!("length({}k) >= 2 OR {}n = {}", prefix, prefix, c));
    pool.push(format!("abs({}n) <= {}", prefix, c + 1));
    // a pattern that comes from a column (differs from row to row)
    pool.push(format!("regexp_matches({}k, {}k)", prefix, prefix));
    pool.push(format!("'1'::int <= {}n AND {}r::text != 'x'", prefix, prefix));
    pool.push(format!("{}k IN ('{}', 'dd') AND NOT {}n IS NULL", prefix, key, prefix));
    if cfg.with_b {
        pool.push(format!("{}b", prefix));
        pool.push(format!("NOT {}b", prefix));
    }
    if cfg.with_ts {
        pool.push(format!("EXTRACT(YEAR FROM {}d) >= 2021", prefix));
    }
    rng.pick(&pool).clone()
}

/// WHERE over columns of the joined table `u` (rejects some partners of a line and accepts others)
pub fn gen_filter_joined(rng: &mut Rng) -> String {
    let c = rng.range(0, 2);
    let pool = vec![
        format!("u.m >= {}", c),
        format!("u.m < {}", c + 1),
        "u.m IS NOT NULL".to_owned(),
        format!("w = '{}'", rng.pick(&["p", "q", "rr"])),
        format!("w != '{}'", rng.pick(&["p", "q", "rr"])),
        format!("u.m > 0 OR w = '{}'", rng.pick(&["p", "q"])),
        format!("t.n <= u.m + {}", c),
    ];
    rng.pick(&pool).clone()
}

pub fn gen_join(rng: &mut Rng) -> String {
    let kind = if rng.chance(1, 2) { "INNER" } else { "OUTER" };
    let on = match rng.below(3) {
        0 => "t.k = u.k",
        1 => "u.k = t.k",
        _ => "t.n = u.m",
    };
    format!("{} JOIN u::'{}' ON {}", kind, JOINED_PATH, on)
}

/// A non-aggregate statement.
pub fn gen_select(rng: &mut Rng, cfg: &TableCfg, allow_join: bool) -> Query {
    let mut q = Query::default();
    let join = allow_join && rng.chance(1, 4);
    if join {
        q.join = Some(gen_join(rng));
    }
    let p = if join { "t." } else { "" };
    q.projections = match rng.below(12) {
        9 => vec![format!("CASE WHEN {}n > 0 THEN 'pos' WHEN {}n < 0 THEN 'neg' ELSE 'zero' END AS sgn", p, p), format!("{}k", p)],
        10 => vec![format!("{}n::text AS nt", p), format!("length({}k) AS len", p), format!("greatest({}n, 1) AS g", p)],
        11 => vec![format!("lower({}k) AS lk", p), format!("{}n IS NULL AS nn", p), format!("{}r * 2.0 AS r2", p)],
        0 => vec!["*".to_owned()],
        1 => vec!["input".to_owned()],
        2 => vec![format!("{}k", p)],
        3 => vec![format!("{}n", p)],
        4 => vec![format!("{}k", p), format!("{}n", p)],
        5 => vec![format!("{}n + 1 AS n1", p), format!("{}k", p)],
        6 => vec![format!("{}r", p), format!("{}n * 2 AS dbl", p)],
        7 => vec![format!("{}k", p), format!("{}n", p), format!("{}r", p)],
        _ => {
            if join {
                vec!["t.k".to_owned(), "u.m".to_owned(), "w".to_owned()]
            } else {
                vec!["upper(k) AS uk".to_owned(), "n".to_owned()]
            }
        }
    };
    if rng.chance(2, 5) {
        q.filter = Some(gen_filter(rng, cfg, p));
    }
    q.distinct = rng.chance(1, 4);
    q
}

pub struct AggCfg {
    /// only aggregates whose value does not depend on arrival order
    pub order_insensitive: bool,
    pub allow_join: bool,
    pub max_aggs: usize,
}

pub fn agg_pool(cfg: &TableCfg, order_insensitive: bool, p: &str) -> Vec<String> {
    let mut pool = vec![
        "COUNT(*)".to_owned(),
        // COUNT takes a plain column name only ("COUNT(t.n)" does not parse); unqualified names resolve to the queried table
        "COUNT(n)".to_owned(),
        "COUNT(k)".to_owned(),
        "COUNT(DISTINCT k)".to_owned(),
        "COUNT(DISTINCT n)".to_owned(),
        "COUNT(DISTINCT r)".to_owned(),
        format!("SUM({}n)", p),
        format!("SUM({}r)", p),
        format!("MIN({}n)", p),
        format!("MAX({}n)", p),
        format!("MIN({}r)", p),
        format!("MAX({}r)", p),
        format!("MIN({}k)", p),
        format!("MAX({}k)", p),
        format!("AVG({}n)", p),
        format!("AVG({}r)", p),
        format!("STDDEV({}r)", p),
        format!("VARIANCE({}n)", p),
        format!("PERCENTILE({}n, 0.5)", p),
        format!("PERCENTILE({}r, 0.9)", p),
        format!("PERCENTILE({}r, 0.5)", p),
        format!("PERCENTILE({}r, 0.25)", p),
        format!("SUM({}n) + 1", p),
        format!("MAX({}n) * 2", p),
    ];
    if cfg.with_b {
        pool.push(format!("BOOL_AND({}b)", p));
        pool.push(format!("BOOL_OR({}b)", p));
        pool.push(format!("MIN({}b)", p));
        pool.push(format!("MAX({}b)", p));
    }
    if cfg.with_ts {
        pool.push(format!("MIN({}d)", p));
        pool.push(format!("MAX({}d)", p));
        pool.push("COUNT(DISTINCT d)".to_owned());
    }
    // aggregates over expressions rather than plain columns
    pool.push(format!("SUM({}n * 2)", p));
    pool.push(format!("MAX({}n + 1)", p));
    pool.push(format!("MIN(abs({}n))", p));
    pool.push(format!("AVG({}r * 2.0)", p));
    pool.push(format!("SUM(CASE WHEN {}n > 0 THEN 1 ELSE 0 END)", p));
    pool.push(format!("COUNT(*) + SUM({}n)", p));
    // INT / INT stays INT (truncating): exact and inexact quotients in one group
    pool.push(format!("SUM({}n / 2)", p));
    pool.push(format!("MAX({}n / 4)", p));
    pool.push(format!("MIN({}n / 3)", p));
    // arithmetic wrapped around numeric aggregates ("an arithmetic wrapper around an aggregate applied to that aggregate's value")
    for (agg, wrap) in [
        ("COUNT(*)", "+ 1"),
        ("COUNT(DISTINCT n)", "* 2"),
        ("PERCENTILE({}n, 0.5)", "* 2"),
        ("PERCENTILE({}r, 0.9)", "+ 1.0"),
        ("AVG({}r)", "* 2.0"),
        ("MIN({}n)", "- 1"),
        ("VARIANCE({}n)", "+ 1.0"),
        ("SUM({}r)", "* 2.0"),
    ] {
        pool.push(format!("{} {}", agg.replace("{}", p), wrap));
    }
    if !order_insensitive {
        pool.push(format!("ARRAY_AGG({}n)", p));
        pool.push(format!("STRING_AGG({}k, ',')", p));
    }
    pool
}

pub fn gen_having(rng: &mut Rng, cfg: &TableCfg, group_by: &[String], p: &str) -> String {
    let c = rng.range(0, 3);
    let mut pool = vec![
        format!("COUNT(*) >= {}", rng.range(1, 3)),
        format!("COUNT(*) < {}", rng.range(2, 4)),
        format!("SUM({}n) > {}", p, c),
        // upper bounds on a sum of values of both signs: a running sum may cross the bound and come back
        format!("SUM({}n) < {}", p, c + 2),
        format!("SUM({}n) <= {}", p, c),
        format!("MAX({}n) <= {}", p, c + 2),
        "COUNT(n) >= 1".to_owned(),
        format!("COUNT(*) >= 1 AND MIN({}n) < {}", p, c + 3),
    ];
    if let Some(g) = group_by.first() {
        if g.ends_with('k') {
            pool.push(format!("{} != '{}'", g, rng.pick(&KEYS[..3])));
        } else {
            pool.push(format!("{} > {}", g, c));
        }
    }
    let _ = cfg;
    rng.pick(&pool).clone()
}

pub fn gen_aggregate(rng: &mut Rng, cfg: &TableCfg, ac: &AggCfg) -> Query {
    let mut q = Query::default();
    q.aggregate = true;
    let join = ac.allow_join && rng.chance(1, 5);
    if join {
        q.join = Some(gen_join(rng));
    }
    let p = if join { "t." } else { "" };
    q.group_by = match rng.below(6) {
        0 | 1 => Vec::new(),
        2 | 3 => vec![format!("{}k", p)],
        4 => vec![format!("{}n", p)],
        _ => vec![format!("{}k", p), format!("{}n", p)],
    };
    let pool = agg_pool(cfg, ac.order_insensitive, p);
    let n_aggs = rng.range(1, ac.max_aggs as i64) as usize;
    let mut projections: Vec<String> = Vec::new();
    for i in 0..n_aggs {
        projections.push(format!("{} AS a{}", rng.pick(&pool), i));
    }
    // group keys somewhere in the select list (often, not always)
    for g in &q.group_by {
        if rng.chance(4, 5) {
            let pos = rng.below(projections.len() + 1);
            projections.insert(pos, g.clone());
        }
    }
    q.projections = projections;
    if rng.chance(1, 3) {
        q.filter = Some(if join && rng.chance(1, 2) { gen_filter_joined(rng) } else { gen_filter(rng, cfg, p) });
    }
    if rng.chance(1, 3) {
        q.having = Some(gen_having(rng, cfg, &q.group_by, p));
    }
    q.distinct = rng.chance(1, 5);
    q
}
