//! C10 — follow mode delivers every completed line exactly once, in order.

use serde_json::{json, Value as J};

use crate::follow::{self, FOLLOW_PATH};
use crate::gen::{self, Alphabet};
use crate::prop::{Outcome, Property};
use crate::rng::Rng;
use crate::seam::EvKind;
use crate::util::*;
use crate::world::{run_world, Mode, Status, WorldSpec};

pub struct C10;

pub const RAW_DEFS: &str = "CREATE TABLE raw(line = '(.*)', line[1] => x TEXT);";

impl Property for C10 {
    fn id(&self) -> &'static str {
        "C10"
    }

    fn budget(&self) -> (u64, u64) {
        (800_000, 24_000_000)
    }

    fn rule(&self) -> &'static str {
        "case = (initial content, appended content, writer cut positions, per-event script of landings/EINTR/short reads, reader buffer capacity, read granularity, --head, a followed file that has been unlinked (link count 0) and is still written, iterator or whole FollowFileExecutor [SELECT input; for a quarter an aggregate whose refreshed tables must be the tables of growing prefixes: GROUP BY with COUNT, or STRING_AGG which shows arrival order]); generated swarm-style from mix(VERIF_SEED,'C10',index). Non-trivial iff >=1 append boundary fell strictly inside a line AND >=1 poll returned EOF with a partial line buffered; distinct by the hash of the schedule as experienced: (event kind, bytes served, bytes landed before it, fault) per seam event."
    }

    fn assumptions(&self) -> Vec<String> {
        vec![
            "content is valid UTF-8 (the property's quantifier); the file is append-only (no truncation/rotation)".to_owned(),
            "appends become visible to the follower only through read(2); between two seam calls the follower is sequential code, so landing an append at the later call covers every instant in between".to_owned(),
            "the follow run is ended by an injected EIO after the writer has finished and the follower has polled EOF `idle` more times".to_owned(),
            "bounds: <=12 lines, <=40 appends, lines <=9 KiB, buffer capacities {1,2,3,4,5,7,8,16,64,8192}".to_owned(),
        ]
    }

    fn generate(&self, rng: &mut Rng, thorough: bool) -> J {
        let exec = rng.chance(20, 100);
        // a quarter of the whole-executor runs use an aggregate statement (one table refresh per delivered line)
        let exec_agg = exec && rng.chance(1, 4);
        let head = rng.chance(1, 2);
        let alphabet = *rng.pick(&[Alphabet::Ascii, Alphabet::Utf8, Alphabet::Utf8, Alphabet::CrBlank, Alphabet::Odd]);
        // size regime: one line beyond every buffer in the system (64 KiB .. 1.2 MiB), appended in pieces
        let giant = rng.chance(if thorough { 20 } else { 3 }, 1000);
        if giant {
            let len = *rng.pick(&[66_000usize, 70_000, 131_100, 200_000, 1_100_000]);
            let len = if !thorough && len > 300_000 { 140_000 } else { len };
            let mut app_lines: Vec<Vec<u8>> = vec![gen::gen_line(rng, alphabet, 16, false), gen::gen_giant_line(rng, len), gen::gen_line(rng, alphabet, 16, false)];
            if rng.chance(1, 2) {
                app_lines.swap(0, 1);
            }
            let append = gen::join_lines(&app_lines, true);
            let mut cuts: Vec<usize> = (0..rng.range(1, 4)).map(|_| rng.range(1, append.len() as i64 - 1) as usize).collect();
            cuts.sort();
            cuts.dedup();
            let cfg = gen::SchedCfg { poll_gap_pct: 30, eintr_pct: 0, short_pct: 0 };
            let steps = gen::gen_steps(rng, &cfg, cuts.len() + 1, 3, 2);
            return json!({
                "prop": "C10",
                "mode": if exec { "exec" } else { "iter" },
                "head": head,
                "cap": if exec { 8192 } else { *rng.pick(&[4096usize, 8192, 65536, 1 << 20]) },
                "initial": enc(&gen::join_lines(&[gen::gen_line(rng, alphabet, 16, false)], true)),
                "append": enc(&append),
                "cuts": cuts,
                "steps": steps_to_json(&steps),
                "read_mode": "bulk",
                "idle": 1,
            });
        }
        let cap = if exec { 8192 } else { *rng.pick(&gen::CAPS) };
        let allow_huge = rng.chance(1, 10);
        let n_init = rng.below(4);
        let n_app = rng.below(9);
        let init_lines: Vec<Vec<u8>> = (0..n_init).map(|_| gen::gen_line(rng, alphabet, cap, false)).collect();
        let app_lines: Vec<Vec<u8>> = (0..n_app).map(|_| gen::gen_line(rng, alphabet, cap, allow_huge)).collect();
        let initial = gen::join_lines(&init_lines, !rng.chance(3, 10));
        let append = gen::join_lines(&app_lines, !rng.chance(3, 10));
        let cuts = gen::gen_cuts(rng, &append, 39);
        let chunks = gen::cut_chunks(&append, &cuts).len();
        let cfg = gen::gen_sched_cfg(rng);
        let extra = rng.below(6);
        let steps = gen::gen_steps(rng, &cfg, chunks, extra, 2);
        let read_mode = gen::gen_read_mode(rng);
        json!({
            "prop": "C10",
            "mode": if exec_agg { "exec_agg" } else if exec { "exec" } else { "iter" },
            // aggregate runs: half of them with an aggregate whose value shows the ORDER in which the lines arrived
            "agg_in_order": rng.chance(1, 2),
            // aggregate runs: the statement says DISTINCT (no effect on its table; repeated lines must still all arrive)
            "agg_distinct": rng.chance(1, 3),
            // the followed file has been removed from its directory (rm, a rename over it) and is still being written
            "unlinked": rng.chance(1, 10),
            "head": head,
            "cap": cap,
            "initial": enc(&initial),
            "append": enc(&append),
            "cuts": cuts,
            "steps": steps_to_json(&steps),
            "read_mode": read_mode_to_json(&read_mode),
            "idle": rng.range(1, 3),
            // simulated duration of one EOF poll: a spinning follower, or seconds (slow machine / pausing writer)
            "poll_ms": *rng.pick(&[0u64, 0, 0, 0, 0, 0, 1, 1000, 3000, 60_000]),
            // the descriptor handed over is not at byte 0 (e.g. inherited): --head must still start at the first byte
            "pre_seek": if rng.chance(1, 10) { json!(rng.below(initial.len() + 1)) } else { J::Null },
            // whole-executor runs: writer chunks that land after the constructor returned, before execute() is entered
            "land_after_new": if exec && rng.chance(1, 3) { rng.range(1, 3) } else { 0 },
            // whole-executor runs with a plain statement: the user interrupts (running.store(false)) just before this seam
            // event, at whatever state the follower is in then (a partial line pending at an EOF poll, mid-burst, ...)
            "interrupt_at": if exec && !exec_agg && rng.chance(1, 3) { json!(rng.below(40)) } else { J::Null },
        })
    }

    fn shrink(&self, case: &J) -> Vec<J> {
        use crate::shrink::*;
        let mut out = Vec::new();
        bytes_field(case, "append", &mut out);
        bytes_field(case, "initial", &mut out);
        array_field(case, "cuts", &mut out);
        steps_field(case, "steps", &mut out);
        set_field(case, "read_mode", json!("bulk"), &mut out);
        if jstr(case, "mode") == "exec" {
            set_field(case, "mode", json!("iter"), &mut out);
        }
        bool_field(case, "head", true, &mut out);
        bool_field(case, "unlinked", false, &mut out);
        num_field(case, "cap", 8192, &mut out);
        num_field(case, "idle", 1, &mut out);
        num_field(case, "poll_ms", 0, &mut out);
        set_field(case, "pre_seek", J::Null, &mut out);
        num_field(case, "land_after_new", 0, &mut out);
        out
    }

    fn check(&self, case: &J, want_trace: bool) -> Outcome {
        let mut out = Outcome::default();
        let initial = jbytes(case, "initial");
        let append = jbytes(case, "append");
        let mut whole = initial.clone();
        whole.extend_from_slice(&append);
        if std::str::from_utf8(&whole).is_err() || std::str::from_utf8(&initial).is_err() && false {
            out.invalid = Some("content is not valid UTF-8".to_owned());
            return out;
        }
        let exec_agg = jstr(case, "mode") == "exec_agg";
        let exec = jstr(case, "mode") == "exec" || exec_agg;
        let head = jbool(case, "head");
        let cap = jusize(case, "cap", 8192).max(1);
        let cuts = jusizes(case, "cuts");
        let chunks = gen::cut_chunks(&append, &cuts);
        let mode = if exec { Mode::FollowExec { head } } else { Mode::FollowIter { head, cap } };
        let agg_in_order = exec_agg && jbool(case, "agg_in_order");
        let agg_distinct = exec_agg && jbool(case, "agg_distinct");
        let stmt = match (agg_in_order, exec_agg, agg_distinct) {
            (true, _, false) => "SELECT STRING_AGG(x, '|') AS s, COUNT(*) AS c FROM raw",
            (true, _, true) => "SELECT DISTINCT STRING_AGG(x, '|') AS s, COUNT(*) AS c FROM raw",
            (false, true, false) => "SELECT x, COUNT(*) AS c FROM raw GROUP BY x",
            (false, true, true) => "SELECT DISTINCT x, COUNT(*) AS c FROM raw GROUP BY x",
            _ => "SELECT input FROM raw",
        };
        let mut spec = WorldSpec::new(RAW_DEFS, stmt, mode);
        spec.unlinked_inputs = jbool(case, "unlinked");
        out.probe("followed_file_unlinked", spec.unlinked_inputs as u64);
        spec.files.push((FOLLOW_PATH.to_owned(), initial.clone()));
        spec.appends = chunks.clone();
        spec.steps = steps_from_json(case, "steps");
        spec.read_mode = read_mode_from_json(case, "read_mode");
        spec.end_after_idle = Some(jusize(case, "idle", 1));
        spec.poll_cost_ns = jusize(case, "poll_ms", 0) as u64 * 1_000_000;
        spec.land_after_new = jusize(case, "land_after_new", 0);
        if exec && !exec_agg {
            if let Some(at) = case.get("interrupt_at").and_then(|x| x.as_u64()) {
                spec.interrupt = Some(crate::seam::Interrupt::AtEvent(at as usize));
            }
        }
        out.probe("append_between_construction_and_execute", (exec && spec.land_after_new > 0 && !chunks.is_empty()) as u64);
        if let Some(pos) = case.get("pre_seek").and_then(|x| x.as_u64()) {
            spec.pre_seek = Some(pos.min(initial.len() as u64));
            // the harness' own positioning consumes one script step: keep it quiet
            spec.steps.insert(1.min(spec.steps.len()), crate::seam::Step { land: 0, fault: crate::seam::Fault::None });
            out.probe("descriptor_not_at_byte_0", (pos > 0) as u64);
        }
        // a legal run needs at most one read per byte plus one per script step, EINTR and poll
        spec.event_budget = 2000 + 3 * whole.len() + 4 * spec.steps.len();
        let res = run_world(&spec);
        out.absorb("follow", &res, want_trace);

        let features = json!({
            "mode": jstr(case, "mode"),
            "head": head,
            "multibyte": whole.iter().any(|b| *b >= 0x80),
        });

        if let Status::Setup(err) = &res.status {
            out.invalid = Some(err.clone());
            return out;
        }
        if !res.terminated() {
            out.violate("c10.no_termination", format!("follower still issuing seam calls after {} events (hung={})", res.log.len(), res.hung), features);
            return out;
        }
        if let Status::Panic(msg) = &res.status {
            out.violate("c10.panic", msg.clone(), features);
            return out;
        }
        if let Status::Err(msg) = &res.status {
            out.violate("c10.error", format!("execute returned an error: {}", msg), features);
            return out;
        }

        let content = follow::final_content(&initial, &chunks, &res.log);
        if exec_agg {
            // every table on screen must be the table of a prefix of the stream's complete lines (prefixes never
            // go backwards) and the last one the table of all of them: a tail delivered early, a split, merged,
            // lost or duplicated line changes some group's count
            let tables = super::c11::refreshes(&res.stdout);
            if follow::start_candidates(&res.log, head).iter().any(|x0| *x0 < content.len() && content[*x0] & 0xC0 == 0x80) {
                // attached inside a multi-byte character: the first (partial) line cannot be rendered character
                // for character and would name its own group; judged in the non-aggregate modes only
                out.probe("exec_aggregate_skipped_midchar_start", 1);
                return out;
            }
            if agg_in_order && follow::start_candidates(&res.log, head).iter().any(|x0| complete_lines(&content[(*x0).min(content.len())..]).iter().any(|l| l.is_empty())) {
                // STRING_AGG leaves out the delimiter while its accumulator is empty; what that does to empty values is
                // not this property's business, so streams with empty lines are judged in the other modes only
                out.probe("exec_aggregate_skipped_empty_line", 1);
                return out;
            }
            let mut verdict: Option<String> = None;
            let mut ok_any = false;
            for x0 in follow::start_candidates(&res.log, head) {
                let lines = complete_lines(&content[x0.min(content.len())..]);
                let render = |k: usize| -> Vec<String> {
                    if agg_in_order {
                        let joined: Vec<String> = lines[..k].iter().map(|l| String::from_utf8_lossy(l).into_owned()).collect();
                        return vec![format!("s: '{}', c: {}", joined.join("|"), k)];
                    }
                    let mut groups: std::collections::BTreeMap<Vec<u8>, usize> = std::collections::BTreeMap::new();
                    for l in &lines[..k] {
                        *groups.entry(l.clone()).or_insert(0) += 1;
                    }
                    groups.iter().map(|(g, c)| format!("x: '{}', c: {}", String::from_utf8_lossy(g), c)).collect()
                };
                let mut k = 0usize;
                let mut bad: Option<String> = None;
                for (i, t) in tables.iter().enumerate() {
                    let mut found = None;
                    for kk in k.max(1)..=lines.len() {
                        if render(kk) == *t {
                            found = Some(kk);
                            break;
                        }
                    }
                    match found {
                        Some(kk) => k = kk,
                        None => {
                            bad = Some(format!("refresh #{} shows {:?} which is not the table of any prefix (>= {} lines) of the stream's {} complete lines", i + 1, t.iter().take(6).collect::<Vec<_>>(), k, lines.len()));
                            break;
                        }
                    }
                }
                if bad.is_none() && k != lines.len() {
                    bad = Some(format!("the last table accounts for {} lines, the stream has {} complete lines", k, lines.len()));
                }
                match bad {
                    None => {
                        ok_any = true;
                        break;
                    }
                    Some(b) => {
                        if verdict.is_none() {
                            verdict = Some(b);
                        }
                    }
                }
            }
            if !ok_any {
                out.violate("c10.wrong_item", format!("aggregate follow run: {}", verdict.unwrap_or_default()), features.clone());
            }
            out.probe("mode_exec_aggregate", 1);
            out.probe("mode_exec_aggregate_order_sensitive", agg_in_order as u64);
            out.probe("mode_exec_aggregate_distinct", agg_distinct as u64);
            out.probe("preexisting_tail_with_head", (head && !initial.is_empty() && initial.last() != Some(&b'\n')) as u64);
            return out;
        }
        let deliveries = if exec {
            let mut ds = Vec::new();
            for d in follow::stdout_records(&res) {
                match follow::unquote(&d.item) {
                    Some(item) => ds.push(follow::Delivery { time: d.time, item }),
                    None => {
                        out.violate("c10.wrong_item", format!("stdout record {:?} is not a quoted input line", String::from_utf8_lossy(&d.item)), features);
                        return out;
                    }
                }
            }
            ds
        } else {
            follow::deliveries_iter(&res)
        };
        let finished = res.terminating_eio;
        if !finished {
            // the run ended before the scripted end (iterator gave up by itself)
            let all_landed = content.len() == initial.len() + append.len();
            let _ = all_landed;
        }
        // an interrupted follower may stop early (after the next completed line): from the interrupt on only safety is
        // demanded - what is delivered is still a prefix of the stream's complete lines, no tail, nothing altered
        let interrupted = res.interrupted_at;
        out.fault("interrupt_during_follow", interrupted.is_some() as u64);
        match follow::check_follow_until(&res.log, &deliveries, &content, head, interrupted.is_none(), interrupted) {
            Ok(_) => {}
            Err(v) => {
                out.violate(&format!("c10.{}", v.class), v.detail, features.clone());
            }
        }
        if out.violation.is_none() && interrupted.is_none() && content.len() != initial.len() + append.len() {
            // the follower stopped while the writer still had data: lines can never be delivered
            let stream_lines = complete_lines(&whole).len();
            let seen_lines = complete_lines(&content).len();
            if stream_lines > seen_lines {
                out.violate("c10.missing_item", format!("following ended after {} events although the writer had more to append", res.log.len()), features);
            }
        }

        // coverage measures
        let mut boundary_inside_line = false;
        let mut len_seen = initial.len();
        if !initial.is_empty() && !append.is_empty() && *initial.last().unwrap() != b'\n' {
            boundary_inside_line = true;
        }
        let mut partial_poll = false;
        let mut midchar = false;
        let mut served = 0usize;
        for e in &res.log {
            if e.landed > 0 {
                len_seen += e.landed;
                if len_seen < content.len() && content[len_seen - 1] != b'\n' {
                    boundary_inside_line = true;
                }
            }
            if e.kind == EvKind::Read && e.file == 0 {
                if e.ret > 0 {
                    served = served.max(e.off + e.ret as usize);
                    if served < content.len() && content[served] & 0xC0 == 0x80 {
                        midchar = true;
                    }
                } else if e.ret == 0 && served > 0 && content.get(served - 1) != Some(&b'\n') && served >= e.off {
                    partial_poll = true;
                }
            }
        }
        out.probe("midchar_poll", midchar as u64);
        out.probe("partial_line_at_eof_poll", partial_poll as u64);
        out.probe("append_boundary_inside_line", boundary_inside_line as u64);
        out.probe("line_longer_than_buffer", whole.split(|b| *b == b'\n').any(|l| l.len() > cap) as u64);
        out.probe("mode_exec", exec as u64);
        out.probe("slow_polls_with_partial_line_pending_5s_or_more", (partial_poll && res.clock_ns >= 5_000_000_000) as u64);
        out.fault("clock_advance_per_poll", (jusize(case, "poll_ms", 0) > 0) as u64);
        out.probe("line_longer_than_64k_across_polls", (partial_poll && whole.split(|b| *b == b'\n').any(|l| l.len() > 65536)) as u64);
        out.probe("no_head", (!head) as u64);
        out.fault("torn_append", chunks.len().saturating_sub(1) as u64);
        if boundary_inside_line && partial_poll {
            out.nontrivial.push(res.schedule_signature());
        }
        out
    }
}
