pub mod c10;

use crate::prop::Property;

pub fn all() -> Vec<Box<dyn Property>> {
    vec![Box::new(c10::C10)]
}
