pub mod c10;
pub mod c12;

use crate::prop::Property;

pub fn all() -> Vec<Box<dyn Property>> {
    vec![Box::new(c10::C10), Box::new(c12::C12)]
}
