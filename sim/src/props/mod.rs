pub mod c06;
pub mod c07;
pub mod c10;
pub mod c11;
pub mod c12;
pub mod c15;
pub mod c18;
pub mod c19;

use crate::prop::Property;

pub fn all() -> Vec<Box<dyn Property>> {
    vec![Box::new(c06::C06), Box::new(c07::C07), Box::new(c10::C10), Box::new(c11::C11), Box::new(c12::C12), Box::new(c15::C15), Box::new(c18::C18), Box::new(c19::C19)]
}
