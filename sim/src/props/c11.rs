//! C11 — incremental (tail -f) results equal a batch run over the same prefix.
//!
//! L1: ExecutionEngine::execute(line, ExecutionConfig::default()) fed line by line (the call follow mode
//!     makes). L2: the whole FollowFileExecutor under a generated writer/poll schedule, refreshes taken
//!     from the write(1) capture. Reference: a FileExecutor batch world over exactly the first k lines,
//!     for every k.

use serde_json::{json, Value as J};

use crate::follow::FOLLOW_PATH;
use crate::gen;
use crate::prop::{Outcome, Property};
use crate::rng::Rng;
use crate::scen::*;
use crate::sqlgen::{self, AggCfg};
use crate::util::*;
use crate::world::{Mode, Status, WorldSpec};

pub struct C11;

const CLS: &[u8] = b"\x1B[2J\x1B[1;1H";

/// stdout of an aggregate follow run -> the tables that appeared on screen
pub fn refreshes(stdout: &[u8]) -> Vec<Vec<String>> {
    let mut out = Vec::new();
    let mut rest = stdout;
    // text before the first clear-screen (none expected for aggregates)
    let mut first = true;
    loop {
        let pos = rest.windows(CLS.len()).position(|w| w == CLS);
        let (chunk, next) = match pos {
            Some(p) => (&rest[..p], Some(&rest[p + CLS.len()..])),
            None => (rest, None),
        };
        if !(first && chunk.is_empty()) {
            let lines: Vec<String> = String::from_utf8_lossy(chunk).split('\n').filter(|l| !l.is_empty()).map(|l| l.to_owned()).collect();
            if !first || !lines.is_empty() {
                out.push(lines);
            }
        }
        first = false;
        match next {
            Some(n) => rest = n,
            None => break,
        }
    }
    out
}

impl Property for C11 {
    fn id(&self) -> &'static str {
        "C11"
    }

    fn budget(&self) -> (u64, u64) {
        (120_000, 3_600_000)
    }

    fn rule(&self) -> &'static str {
        "case = (table definition, statement without LIMIT [plain / DISTINCT / aggregates incl. COUNT(DISTINCT), PERCENTILE, ARRAY_AGG, STRING_AGG / HAVING / DISTINCT+HAVING], input lines incl. REAL values sixteen orders of magnitude apart, column names defined twice or called `input`, NULL-producing and non-admitted lines and recurring keys, writer cut positions and poll script for the follow run). Checked for EVERY prefix length k: L1 (engine fed line by line) vs a batch FileExecutor world over the first k lines; L2 (real FollowFileExecutor under the schedule): every table on screen is the batch table of some prefix, prefixes never go backwards, the last table is the batch table of all complete lines. Non-trivial iff >=2 lines produced output and the statement keeps cross-line state (aggregate or DISTINCT); distinct by (statement shape, content hash)."
    }

    fn assumptions(&self) -> Vec<String> {
        vec![
            "the reference is the batch path itself (FileExecutor over a simulated file holding exactly the first k lines), so defects common to both paths are invisible here".to_owned(),
            "a run in which incremental and batch side fail with the same error/panic on the same prefix counts as agreement (totality is C09's business)".to_owned(),
            "bounds: <=12 lines (<=90 in the large regime) with every prefix compared; 4 300-9 500 lines in the size regime with eight seeded prefixes and the end compared; statements from the generated family without LIMIT".to_owned(),
        ]
    }

    fn generate(&self, rng: &mut Rng, thorough: bool) -> J {
        if rng.chance(if thorough { 3 } else { 1 }, 6000) {
            // size regime: thousands of values in one group under aggregates that keep every value (PERCENTILE,
            // COUNT(DISTINCT)); the every-prefix oracle is quadratic, so the batch comparison is made at a few seeded
            // prefix lengths beyond 4096 / 8192 values and at the end
            let n = rng.range(4_300, 9_500) as usize;
            let groups = *rng.pick(&[1usize, 1, 2]);
            let lines: Vec<Vec<u8>> = (0..n).map(|_| format!("E k={};n={};r=0.25;", ["a", "b"][rng.below(groups)], rng.below(1000)).into_bytes()).collect();
            let mut sparse: Vec<usize> = (0..8).map(|_| rng.range(4_097, n as i64) as usize).collect();
            sparse.push(n);
            sparse.sort();
            sparse.dedup();
            return json!({
                "prop": "C11",
                "joined": J::Null,
                "defs": format!("{} {}", sqlgen::table_defs(&sqlgen::plain_table_cfg()), sqlgen::JOINED_DEFS),
                "stmt": *rng.pick(&[
                    "SELECT PERCENTILE(n, 0.5) AS p, COUNT(*) AS c FROM t",
                    "SELECT k, PERCENTILE(n, 0.95) AS p, MAX(n) AS m FROM t GROUP BY k",
                    "SELECT k, COUNT(DISTINCT n) AS d, PERCENTILE(n, 0.25) AS q FROM t GROUP BY k",
                ]),
                "aggregate": true,
                "lines": enc_list(&lines),
                "sparse": sparse,
                "format": "text",
                "follow": false,
                "init_cut": 0,
                "poll_ms": 0,
                "cuts": [],
                "steps": [],
                "read_mode": "bulk",
            });
        }
        let cfg = if rng.chance(1, 2) { sqlgen::plain_table_cfg() } else { sqlgen::gen_table_cfg(rng) };
        let mut lc = sqlgen::gen_line_cfg(rng);
        lc.n_range = *rng.pick(&[2, 3, 10]);
        // size regime: more than 16 / 32 groups, rows and distinct values
        let large = rng.chance(if thorough { 15 } else { 4 }, 100);
        if large {
            // many groups, or few groups with many values each
            lc.keys = if rng.chance(1, 2) { rng.range(18, 45) as usize } else { rng.range(1, 2) as usize };
            lc.n_range = *rng.pick(&[10, 40, 1000]);
            lc.null_pct = *rng.pick(&[0, 10]);
        }
        if rng.chance(1, 5) {
            lc.zero_pct = *rng.pick(&[20, 50]);
        }
        let with_join = rng.chance(1, 6);
        let query = if rng.chance(1, 3) {
            let mut q = sqlgen::gen_select(rng, &cfg, false);
            if with_join {
                q.join = Some(sqlgen::gen_join(rng));
                q.projections = vec![rng.pick(&["t.k, u.m, w", "*", "t.n, u.k"]).to_string()];
                q.filter = if rng.chance(1, 3) { Some(sqlgen::gen_filter_joined(rng)) } else { None };
            }
            q
        } else {
            let mut q = sqlgen::gen_aggregate(rng, &cfg, &AggCfg { order_insensitive: false, allow_join: with_join, max_aggs: 4 });
            if with_join {
                // an aggregate over a join: one line may add several values to one aggregator (fan-out)
                for _ in 0..8 {
                    if q.join.is_some() {
                        break;
                    }
                    q = sqlgen::gen_aggregate(rng, &cfg, &AggCfg { order_insensitive: false, allow_join: true, max_aggs: 4 });
                }
                if q.join.is_some() && rng.chance(1, 2) {
                    let i = q.projections.len();
                    q.projections.push(format!("{} AS a{}", rng.pick(&["PERCENTILE(t.n, 0.5)", "PERCENTILE(t.r, 0.9)", "ARRAY_AGG(t.n)", "PERCENTILE(u.m, 0.5)"]), i));
                }
            }
            if rng.chance(1, 4) {
                // the shape the DISTINCT memory matters for
                q.distinct = true;
                if q.having.is_none() {
                    q.having = Some(sqlgen::gen_having(rng, &cfg, &q.group_by, ""));
                }
            }
            q
        };
        // names that resolve in more than one way: a column name the table defines twice, a column called like the
        // `input` pseudo column; batch and incremental path must agree on what such a name means
        let mut query = query;
        if query.join.is_none() && rng.chance(1, 12) {
            // only aggregates that saturate (BOOL_OR once true, BOOL_AND once false) in the select list, the others in
            // HAVING only: the table must still follow what HAVING says about the later lines
            let mut q = sqlgen::Query::default();
            q.aggregate = true;
            let c = rng.range(0, 2);
            q.projections = match rng.below(3) {
                0 => vec![format!("BOOL_OR(n > {}) AS any_big", c)],
                1 => vec![format!("BOOL_AND(n >= {}) AS all_big", c)],
                _ => vec![format!("BOOL_OR(n > {}) AS any_big", c), format!("BOOL_AND(n >= {}) AS all_big", c)],
            };
            if rng.chance(1, 4) {
                q.group_by = vec!["k".to_owned()];
                q.projections.push("k".to_owned());
            }
            q.having = Some(match rng.below(4) {
                0 => format!("COUNT(*) >= {}", rng.range(2, 5)),
                1 => format!("SUM(n) > {}", c),
                2 => format!("COUNT(*) < {}", rng.range(2, 5)),
                _ => format!("COUNT(n) >= {}", rng.range(1, 3)),
            });
            query = q;
        }
        let mut defs_t = sqlgen::table_defs(&cfg);
        if cfg.variant == sqlgen::Variant::Capture && query.join.is_none() && rng.chance(1, 8) {
            let cut = defs_t.rfind(");").unwrap_or(defs_t.len());
            if rng.chance(1, 2) {
                defs_t.replace_range(cut.., &format!(", line[{}] => {} TEXT);", rng.range(1, 3), rng.pick(&["k", "n", "r"])));
            } else {
                defs_t.replace_range(cut.., &format!(", line[{}] => input TEXT);", rng.range(1, 3)));
                if query.aggregate {
                    let i = query.projections.len();
                    query.projections.push(format!("{} AS a{}", rng.pick(&["MAX(input)", "COUNT(DISTINCT input)", "STRING_AGG(input, '|')", "MIN(input)"]), i));
                    if rng.chance(1, 3) {
                        query.filter = Some("input != 'a'".to_owned());
                    }
                } else {
                    query.projections.push("input".to_owned());
                }
            }
        }
        // REAL values of very different magnitudes in one group: a sum is then sensitive to every rounding step, so
        // batch and incremental runs agree only if they perform the same additions in the same order
        let wide_reals = rng.chance(1, 10);
        if wide_reals && query.aggregate {
            let i = query.projections.len();
            let col = if query.join.is_some() { "t.r" } else { "r" };
            query.projections.push(format!("{}({}) AS a{}", rng.pick(&["SUM", "SUM", "AVG"]), col, i));
        }
        let n_lines = if large { rng.range(18, if thorough { 90 } else { 50 }) as usize } else { rng.range(1, 12) as usize };
        let noise_pct = *rng.pick(&[0, 10, 30]);
        let mut lines: Vec<Vec<u8>> = Vec::new();
        for _ in 0..n_lines {
            if rng.below(100) < noise_pct && sqlgen::noise_possible(&cfg) {
                lines.push(sqlgen::gen_noise(rng, &cfg));
            } else if !lines.is_empty() && rng.chance(1, 5) {
                // a row identical to one seen earlier
                let i = rng.below(lines.len());
                lines.push(lines[i].clone());
            } else {
                let mut spec = sqlgen::gen_line_spec(rng, &cfg, &lc);
                if wide_reals && spec.r.is_some() {
                    spec.r = Some(rng.pick(&["10000000000000000", "-10000000000000000", "1", "3", "0.0000000000000001", "0.0000000000000003", "0.25", "20000000000000000"]).to_string());
                }
                lines.push(sqlgen::render_line(&cfg, &spec).into_bytes());
            }
        }
        let content = gen::join_lines(&lines, true);
        let lockstep = rng.chance(1, 3);
        let cuts = if lockstep {
            content.iter().enumerate().filter(|(i, b)| **b == b'\n' && i + 1 < content.len()).map(|(i, _)| i + 1).collect()
        } else {
            gen::gen_cuts(rng, &content, 30)
        };
        let cfgs = gen::gen_sched_cfg(rng);
        let steps = gen::gen_steps(rng, &cfgs, cuts.len() + 1, 3, 2);
        let joined: Vec<Vec<u8>> = if query.join.is_some() { (0..rng.range(0, 8)).map(|_| sqlgen::gen_joined_line(rng, lc.keys.min(3), 10).into_bytes()).collect() } else { Vec::new() };
        json!({
            "prop": "C11",
            "joined": if query.join.is_some() { J::String(enc(&gen::join_lines(&joined, true))) } else { J::Null },
            "defs": format!("{} {}", defs_t, sqlgen::JOINED_DEFS),
            "stmt": query.text(),
            "aggregate": query.aggregate,
            "lines": enc_list(&lines),
            "format": rng.pick(&["text", "json", "json"]),
            "follow": query.join.is_none() && rng.chance(1, 2),
            // follow run: this many bytes already exist when following starts with --head (may end in mid-line)
            "init_cut": if rng.chance(1, 3) { rng.below(content.len() + 1) } else { 0 },
            "poll_ms": *rng.pick(&[0u64, 0, 0, 0, 0, 1, 1000, 60_000]),
            "cuts": cuts,
            "steps": steps_to_json(&steps),
            "read_mode": read_mode_to_json(&gen::gen_read_mode(rng)),
        })
    }

    fn shrink(&self, case: &J) -> Vec<J> {
        use crate::shrink::*;
        let mut out = Vec::new();
        if let Some(sp) = case.get("sparse").and_then(|x| x.as_array()) {
            // size regime: thousands of lines; the only reduction tried is cutting the input at one of the compared prefixes
            let lines = jbytes_list(case, "lines");
            for k in sp.iter().filter_map(|x| x.as_u64()).map(|x| x as usize) {
                if k < lines.len() {
                    let mut c = case.clone();
                    c["lines"] = enc_list(&lines[..k].to_vec());
                    c["sparse"] = json!([k]);
                    out.push(c);
                }
            }
            return out;
        }
        bytes_array_field(case, "lines", &mut out);
        bytes_field(case, "joined", &mut out);
        bool_field(case, "follow", false, &mut out);
        array_field(case, "cuts", &mut out);
        steps_field(case, "steps", &mut out);
        num_field(case, "init_cut", 0, &mut out);
        num_field(case, "poll_ms", 0, &mut out);
        set_field(case, "read_mode", json!("bulk"), &mut out);
        set_field(case, "format", json!("text"), &mut out);
        out
    }

    fn check(&self, case: &J, want_trace: bool) -> Outcome {
        let mut out = Outcome::default();
        let defs = jstr(case, "defs");
        let stmt = jstr(case, "stmt");
        let format = jstr(case, "format");
        let lines = jbytes_list(case, "lines");
        if lines.is_empty() || lines.iter().any(|l| l.contains(&b'\n') || std::str::from_utf8(l).is_err()) || stmt.to_uppercase().contains(" LIMIT ") {
            out.invalid = Some("needs >=1 UTF-8 line without newline and a statement without LIMIT".to_owned());
            return out;
        }
        let n = lines.len();
        let upper = stmt.to_uppercase();
        let joined: Option<Vec<u8>> = case.get("joined").and_then(|j| j.as_str()).map(dec);
        let features = json!({"distinct": upper.contains("DISTINCT "), "having": upper.contains(" HAVING "), "join": joined.is_some()});

        // --- L1: the engine fed line by line
        let mut espec = WorldSpec::new(&defs, &stmt, Mode::Engine);
        espec.engine_lines = lines.iter().map(|l| String::from_utf8(l.clone()).unwrap()).collect();
        espec.format = format.clone();
        if let Some(j) = &joined {
            espec.extra_files.push((sqlgen::JOINED_PATH.to_owned(), j.clone()));
        }
        let l1 = run(&mut out, "L1 engine, line by line", &espec, want_trace);
        if !usable(&mut out, "c11", &l1, &features) {
            return out;
        }
        let aggregate = jbool(case, "aggregate");
        let l1_failed_at: Option<usize> = match &l1.status {
            Status::Ok => None,
            _ => Some(l1.engine.iter().filter(|e| e.error.is_none()).count() + 1),
        };

        // --- batch over every prefix
        let mut batch: Vec<Option<(String, Vec<String>)>> = Vec::new(); // index k-1; None = prefix not compared (sparse regime)
        let upto = l1_failed_at.unwrap_or(n).min(n);
        let sparse: Option<Vec<usize>> = case.get("sparse").and_then(|x| x.as_array()).map(|a| a.iter().filter_map(|x| x.as_u64()).map(|x| x as usize).collect());
        out.probe("more_than_4096_values_in_one_group_sparse_prefixes", sparse.is_some() as u64);
        for k in 1..=upto {
            if sparse.as_ref().map(|s| !s.contains(&k)).unwrap_or(false) {
                batch.push(None);
                continue;
            }
            let file = gen::join_lines(&lines[..k], true);
            let mut b = batch_spec(&defs, &stmt, &[file], joined.as_deref());
            b.format = format.clone();
            let r = run(&mut out, &format!("batch over first {} lines", k), &b, false);
            if !usable(&mut out, "c11", &r, &features) {
                return out;
            }
            batch.push(Some((status_label(&r.status), records(&r))));
        }

        let mut screen: Vec<String> = Vec::new(); // the table currently shown (aggregate) / all records so far (select)
        let mut outputs = 0;
        for k in 1..=upto {
            if batch[k - 1].is_none() {
                if Some(k) == l1_failed_at {
                    break;
                }
                let e = &l1.engine[k - 1];
                if e.has_row {
                    outputs += 1;
                    let printed: Vec<String> = e.printed.iter().filter(|p| !p.is_empty()).cloned().collect();
                    if aggregate {
                        screen = printed;
                    } else {
                        screen.extend(printed);
                    }
                }
                continue;
            }
            let (bstatus, brecs) = batch[k - 1].as_ref().unwrap();
            if Some(k) == l1_failed_at {
                // incremental side failed on line k: the batch run over k lines must fail the same way
                if *bstatus != status_label(&l1.status) {
                    out.violate("c11.failure_differs", format!("after line {}: incremental execution reports {} but the batch run over {} lines reports {}", k, status_label(&l1.status), k, bstatus), features.clone());
                }
                break;
            }
            let e = &l1.engine[k - 1];
            if e.has_row {
                outputs += 1;
                let printed: Vec<String> = e.printed.iter().filter(|p| !p.is_empty()).cloned().collect();
                if aggregate {
                    screen = printed;
                } else {
                    screen.extend(printed);
                }
            }
            if bstatus != "Ok" {
                out.violate("c11.failure_differs", format!("batch run over the first {} lines reports {} but the incremental execution succeeded on them", k, bstatus), features.clone());
                break;
            }
            if *brecs != screen {
                let class = if aggregate { "c11.table_differs" } else { "c11.rows_differ" };
                out.violate(
                    class,
                    format!("{}: after line {} of {} the incremental {} is {} but a batch run over exactly these lines prints {}", stmt, k, n, if aggregate { "table" } else { "output" }, show(&screen), show(brecs)),
                    features.clone(),
                );
                break;
            }
        }
        if out.violation.is_some() {
            return out;
        }
        let stateful = aggregate || upper.contains("DISTINCT ");
        if outputs >= 2 && stateful {
            out.nontrivial.push(fnv_mix(fnv(stmt.as_bytes()), fnv(serde_json::to_string(&case["lines"]).unwrap().as_bytes())));
        }
        out.probe("aggregate", aggregate as u64);
        out.probe("saturating_aggregates_only_in_select_list", (stmt.starts_with("SELECT BOOL_") && upper.contains(" HAVING ")) as u64);
        out.probe("real_values_of_very_different_magnitudes", lines.iter().any(|l| l.windows(17).any(|w| w == b"10000000000000000")) as u64);
        out.probe("column_called_input", defs.contains("=> input TEXT") as u64);
        out.probe("column_name_defined_twice", ["k", "n", "r"].iter().any(|c| defs.split("CREATE TABLE u").next().unwrap_or("").matches(&format!("=> {} ", c)).count() > 1) as u64);
        out.probe("distinct_having", (upper.contains("DISTINCT ") && upper.contains(" HAVING ")) as u64);
        out.probe("l1_error_agreed", l1_failed_at.is_some() as u64);
        out.probe("large_more_than_16_lines", (n > 16) as u64);
        out.probe("large_more_than_32_lines", (n > 32) as u64);
        out.probe("signed_zero_values", lines.iter().any(|l| l.windows(4).any(|w| w == b"-0.0")) as u64);
        out.probe("large_table_more_than_16_rows", batch.iter().flatten().any(|(_, r)| r.len() > 16) as u64);
        out.probe("wrapped_aggregate", (stmt.contains(") * 2") || stmt.contains(") + 1") || stmt.contains(") - 1")) as u64);

        // --- L2: the real FollowFileExecutor under the writer/poll schedule
        out.probe("join_statement", joined.is_some() as u64);
        out.probe("aggregate_over_join", (joined.is_some() && aggregate) as u64);
        if jbool(case, "follow") && l1_failed_at.is_none() && joined.is_none() && sparse.is_none() {
            let content = gen::join_lines(&lines, true);
            let mut f = WorldSpec::new(&defs, &stmt, Mode::FollowExec { head: true });
            let init_cut = jusize(case, "init_cut", 0).min(content.len());
            f.files.push((FOLLOW_PATH.to_owned(), content[..init_cut].to_vec()));
            f.appends = gen::cut_chunks(&content[init_cut..], &jusizes(case, "cuts"));
            out.probe("l2_preexisting_content_ends_mid_line", (init_cut > 0 && content[init_cut - 1] != b'\n') as u64);
            f.steps = steps_from_json(case, "steps");
            f.read_mode = read_mode_from_json(case, "read_mode");
            f.end_after_idle = Some(2);
            f.format = format.clone();
            f.event_budget = 4000 + 4 * content.len();
            f.poll_cost_ns = jusize(case, "poll_ms", 0) as u64 * 1_000_000;
            let res = run(&mut out, "L2 FollowFileExecutor", &f, want_trace);
            if !usable(&mut out, "c11", &res, &features) {
                return out;
            }
            if res.status != Status::Ok {
                out.violate("c11.failure_differs", format!("follow run reports {} but the batch runs over every prefix succeed", status_label(&res.status)), features.clone());
                return out;
            }
            if aggregate {
                let tables = refreshes(&res.stdout);
                let mut k = 0usize; // prefix matched so far
                for (i, t) in tables.iter().enumerate() {
                    let mut found = None;
                    for kk in k.max(1)..=n {
                        if batch[kk - 1].as_ref().unwrap().1 == *t {
                            found = Some(kk);
                            break;
                        }
                    }
                    match found {
                        Some(kk) => k = kk,
                        None => {
                            out.violate(
                                "c11.screen_not_a_prefix_table",
                                format!("{}: refresh #{} shows {} which is not the batch table of any prefix >= {} lines", stmt, i + 1, show(t), k),
                                features.clone(),
                            );
                            return out;
                        }
                    }
                }
                let last = tables.last().cloned().unwrap_or_default();
                if last != batch[n - 1].as_ref().unwrap().1 {
                    out.violate("c11.final_table_differs", format!("{}: the last table on screen is {} but the batch table over all {} lines is {}", stmt, show(&last), n, show(&batch[n - 1].as_ref().unwrap().1)), features.clone());
                    return out;
                }
                out.probe("l2_refreshes", tables.len() as u64);
            } else {
                let recs: Vec<String> = String::from_utf8_lossy(&res.stdout).split('\n').filter(|l| !l.is_empty()).map(|l| l.to_owned()).collect();
                if recs != batch[n - 1].as_ref().unwrap().1 {
                    out.violate("c11.rows_differ", format!("{}: follow mode printed {} but the batch run prints {}", stmt, show(&recs), show(&batch[n - 1].as_ref().unwrap().1)), features.clone());
                    return out;
                }
            }
            out.probe("l2_runs", 1);
        }
        out
    }
}
