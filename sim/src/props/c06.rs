//! C06 — lines that yield no row are invisible to every query.
//!
//! Fault kind `noise_line`: torn / foreign / non-admitted records inserted anywhere into the main
//! input, the joined file, across file boundaries, and into the appended stream in follow mode.
//! Oracle: twin worlds (without / with noise) print byte-identical records; plus, on the generated
//! table family where the row is known by construction, the admission rule itself.

use serde_json::{json, Value as J};

use crate::follow::FOLLOW_PATH;
use crate::gen;
use crate::prop::{Outcome, Property};
use crate::rng::Rng;
use crate::scen::*;
use crate::sqlgen::{self, AggCfg, KMod, LineSpec, NMod, TableCfg, Variant};
use crate::util::*;
use crate::world::{Mode, Status, WorldSpec};

pub struct C06;

pub fn cfg_to_json(cfg: &TableCfg) -> J {
    json!({
        "variant": match cfg.variant { Variant::Capture => "capture", Variant::Split => "split", Variant::Multi => "multi", Variant::Json => "json" },
        "kmod": match cfg.kmod { KMod::None => "none", KMod::NotNull => "notnull", KMod::Default => "default", KMod::Trim => "trim" },
        "nmod": match cfg.nmod { NMod::None => "none", NMod::NotNull => "notnull", NMod::Default => "default" },
        "order": cfg.order,
        "b_not_null": cfg.b_not_null,
    })
}

pub fn cfg_from_json(v: &J) -> Option<TableCfg> {
    let variant = match v.get("variant")?.as_str()? {
        "capture" => Variant::Capture,
        "split" => Variant::Split,
        "multi" => Variant::Multi,
        "json" => Variant::Json,
        _ => return None,
    };
    let kmod = match v.get("kmod")?.as_str()? {
        "none" => KMod::None,
        "notnull" => KMod::NotNull,
        "default" => KMod::Default,
        "trim" => KMod::Trim,
        _ => return None,
    };
    let nmod = match v.get("nmod")?.as_str()? {
        "none" => NMod::None,
        "notnull" => NMod::NotNull,
        "default" => NMod::Default,
        _ => return None,
    };
    let mut order: Vec<&'static str> = Vec::new();
    for c in v.get("order")?.as_array()? {
        let name: &'static str = match c.as_str()? {
            "k" => "k",
            "n" => "n",
            "r" => "r",
            "b" if variant == Variant::Capture || variant == Variant::Multi => "b",
            "d" if variant == Variant::Capture => "d",
            _ => return None,
        };
        if order.contains(&name) {
            return None;
        }
        order.push(name);
    }
    for need in ["k", "n", "r"] {
        if !order.contains(&need) {
            return None;
        }
    }
    let with_b = order.contains(&"b");
    Some(TableCfg { variant, kmod, nmod, with_b, b_not_null: with_b && v.get("b_not_null").and_then(|x| x.as_bool()).unwrap_or(false), with_ts: order.contains(&"d"), order })
}

pub fn spec_to_json(s: &LineSpec) -> J {
    json!({"k": s.k, "n": s.n, "r": s.r, "b": s.b, "d": s.d.map(|(y, m, d, h, mi, sec, ms)| json!([y, m, d, h, mi, sec, ms]))})
}

pub fn spec_from_json(v: &J) -> Option<LineSpec> {
    let text = |key: &str| -> Option<String> { v.get(key).and_then(|x| x.as_str()).map(|s| s.to_owned()) };
    let k = text("k");
    if let Some(k) = &k {
        if k.is_empty() || !k.chars().all(|c| c == ' ' || c.is_ascii_lowercase()) || k.trim().is_empty() {
            return None;
        }
    }
    let n = text("n");
    if let Some(n) = &n {
        if n.is_empty() || !n.chars().enumerate().all(|(i, c)| c.is_ascii_digit() || c.is_ascii_lowercase() || (i == 0 && c == '-')) || n == "-" {
            return None;
        }
    }
    let r = text("r");
    if let Some(r) = &r {
        // (not-a-number and infinities: only C15's COUNT-only regime generates them, for split tables)
        let special = ["NaN", "nan", "-NaN", "inf", "-inf"].contains(&r.as_str());
        if !special && (r.parse::<f64>().is_err() || !r.chars().enumerate().all(|(i, c)| c.is_ascii_digit() || c == '.' || (i == 0 && c == '-'))) {
            return None;
        }
    }
    let d = match v.get("d") {
        Some(J::Array(a)) if a.len() == 3 || a.len() == 7 => {
            let y = a[0].as_i64()? as i32;
            let m = a[1].as_u64()? as u32;
            let dd = a[2].as_u64()? as u32;
            let part = |i: usize| -> u32 { a.get(i).and_then(|x| x.as_u64()).unwrap_or(0) as u32 };
            let (h, mi, sec, ms) = (part(3), part(4), part(5), part(6));
            if !(1000..=9999).contains(&y) || !(1..=12).contains(&m) || !(1..=28).contains(&dd) || h > 23 || mi > 59 || sec > 59 || ms > 999 {
                return None;
            }
            Some((y, m, dd, h, mi, sec, ms))
        }
        _ => None,
    };
    Some(LineSpec { k, n, r, b: v.get("b").and_then(|x| x.as_bool()).unwrap_or(false), d })
}

enum Item {
    Row(LineSpec),
    /// text on which no pattern matches: a row made of DEFAULTs, or nothing
    Unmatched(Vec<u8>),
    Noise(Vec<u8>),
    /// not valid UTF-8: part of the follow-mode stream only
    Binary(Vec<u8>),
}

fn items_from_json(case: &J, key: &str) -> Option<Vec<Item>> {
    let mut out = Vec::new();
    for it in jarr(case, key) {
        if let Some(u) = it.get("unmatched").and_then(|x| x.as_str()) {
            if !sqlgen::UNMATCHED_TEXT.contains(&u) {
                return None;
            }
            out.push(Item::Unmatched(u.as_bytes().to_vec()));
        } else if let Some(n) = it.get("noise").and_then(|x| x.as_str()) {
            let bytes = dec(n);
            if it.get("binary").and_then(|x| x.as_bool()).unwrap_or(false) {
                if bytes.contains(&b'\n') || std::str::from_utf8(&bytes).is_ok() {
                    return None;
                }
                out.push(Item::Binary(bytes));
            } else {
                out.push(Item::Noise(bytes));
            }
        } else {
            out.push(Item::Row(spec_from_json(it)?));
        }
    }
    Some(out)
}

const JOINED_NOISE: [&[u8]; 8] = [b"", b"   ", b"garbage", b"J k=a", b"J ;;", b"E k=a;n=1;r=0.5;", b"j k=a;m=1;w=p", b"J k=a;m=1;w=p;extra"];

impl Property for C06 {
    fn id(&self) -> &'static str {
        "C06"
    }

    fn budget(&self) -> (u64, u64) {
        (200_000, 6_000_000)
    }

    fn rule(&self) -> &'static str {
        "case = (table configuration from the generated family [capture / split / multi-pattern; NOT NULL, DEFAULT, TRIM, BOOLEAN, TIMESTAMP columns], statement [plain / DISTINCT / LIMIT n / aggregate with HAVING / join on either side], rows given field-wise so the expected typed row is known by construction, noise lines of kinds empty / blanks / pattern prefix only / truncated valid line / failing NOT NULL / long garbage inserted at seeded positions of the main input, the joined file and the follow-mode append stream, file split). Twin worlds without/with noise in batch mode and (non-join statements) follow mode. Non-trivial iff >=1 noise line landed between two admitted lines (or inside the joined file) and the query produced output; distinct by (statement shape, noise positions, content hash)."
    }

    fn assumptions(&self) -> Vec<String> {
        vec![
            "the per-line admission rule is checked only on the generated table family where the harness knows the typed row by construction (its general form over all definitions is C01/C02 territory)".to_owned(),
            "noise kinds are non-admitted by construction under the documented rule: a disagreement between construction and the engine is reported as a violation of the rule".to_owned(),
            "statements that fail on the clean input are not scenarios".to_owned(),
        ]
    }

    fn generate(&self, rng: &mut Rng, _thorough: bool) -> J {
        let mut cfg = sqlgen::gen_table_cfg(rng);
        // one case in eight keeps whatever configuration comes, including those for which every line is a
        // row (a DEFAULT column and no NOT NULL): they exercise the "a declared DEFAULT counts" half of the rule
        let admission_only = rng.chance(1, 8);
        while !admission_only && !sqlgen::noise_possible(&cfg) {
            cfg = sqlgen::gen_table_cfg(rng);
        }
        let lc = sqlgen::gen_line_cfg(rng);
        let kind = *rng.pick(&["select", "select", "limit", "aggregate", "aggregate", "join", "join_aggregate"]);
        let mut query = match kind {
            "select" | "limit" => sqlgen::gen_select(rng, &cfg, false),
            "join" => {
                let mut q = sqlgen::gen_select(rng, &cfg, false);
                q.join = Some(sqlgen::gen_join(rng));
                q.projections = vec![rng.pick(&["t.k, u.m, w", "*", "t.n, u.k"]).to_string()];
                q.filter = if rng.chance(1, 3) { Some(sqlgen::gen_filter_joined(rng)) } else { None };
                q
            }
            "join_aggregate" => {
                let mut q = sqlgen::Query::default();
                q.aggregate = true;
                q.join = Some(sqlgen::gen_join(rng));
                q.group_by = if rng.chance(1, 2) { vec!["t.k".to_owned()] } else { Vec::new() };
                q.projections = vec!["COUNT(*) AS cnt".to_owned(), "SUM(u.m) AS s".to_owned(), "MAX(t.n) AS mx".to_owned()];
                if !q.group_by.is_empty() {
                    q.projections.push("t.k".to_owned());
                }
                q
            }
            _ => sqlgen::gen_aggregate(rng, &cfg, &AggCfg { order_insensitive: false, allow_join: false, max_aggs: 4 }),
        };
        if kind == "limit" {
            query.limit = Some(rng.below(5));
        }
        let n_rows = rng.range(1, 8) as usize;
        let mut items: Vec<J> = (0..n_rows).map(|_| spec_to_json(&sqlgen::gen_line_spec(rng, &cfg, &lc))).collect();
        if cfg.variant != Variant::Split && (admission_only || rng.chance(1, 5)) {
            // text on which no pattern matches at all: a row of DEFAULTs if the table declares any, else nothing
            let pos = rng.below(items.len() + 1);
            items.insert(pos, json!({"unmatched": *rng.pick(&sqlgen::UNMATCHED_TEXT)}));
        }
        if admission_only || rng.chance(1, 4) {
            // a line on which no field is present at all (no pattern matches / empty JSON object)
            let pos = rng.below(items.len() + 1);
            items.insert(pos, spec_to_json(&sqlgen::LineSpec { k: None, n: None, r: None, b: false, d: None }));
        }
        // noise: single lines, adjacent runs, first/last positions
        let n_noise = if sqlgen::noise_possible(&cfg) { rng.range(1, 5) as usize } else { 0 };
        for _ in 0..n_noise {
            let pos = match rng.below(5) {
                0 => 0,
                1 => items.len(),
                _ => rng.below(items.len() + 1),
            };
            let run_len = if rng.chance(1, 4) { rng.range(2, 3) as usize } else { 1 };
            for _ in 0..run_len {
                let mut noise = sqlgen::gen_noise(rng, &cfg);
                if rng.chance(1, 6) && cfg.variant == Variant::Capture {
                    // a valid line truncated at a seeded byte (torn record); kept only if it cannot match
                    let full = sqlgen::render_line(&cfg, &sqlgen::gen_line_spec(rng, &cfg, &lc)).into_bytes();
                    let cut = rng.below(full.len().max(1));
                    let torn = full[..cut].to_vec();
                    let unmatched_is_noise = !(cfg.kmod == KMod::Default || cfg.nmod == NMod::Default) || cfg.kmod == KMod::NotNull || cfg.nmod == NMod::NotNull;
                    if unmatched_is_noise && torn.iter().filter(|b| **b == b';').count() < 3 {
                        noise = torn;
                    }
                }
                items.insert(pos, json!({"noise": enc(&noise)}));
            }
        }
        // size regime: a noise line that is longer than a buffer somewhere in the system (8 KiB BufReader, 64 KiB, 128 KiB)
        // and whose part beyond that boundary is, taken alone, a perfectly valid record: a reader that hands long lines
        // out in pieces turns the remainder into a phantom row
        if sqlgen::garbage_is_noise(&cfg) && (cfg.variant == Variant::Capture || cfg.variant == Variant::Json) && rng.chance(1, 120) {
            let boundary = *rng.pick(&[8192usize, 65536, 65536, 131072]);
            let pad_len = match rng.below(4) {
                0 => boundary - 1,
                1 => boundary + 1,
                _ => boundary,
            };
            let mut noise = vec![b'X'; pad_len];
            noise.extend_from_slice(sqlgen::render_line(&cfg, &sqlgen::gen_line_spec(rng, &cfg, &lc)).as_bytes());
            let pos = rng.below(items.len() + 1);
            items.insert(pos, json!({"noise": enc(&noise), "giant": true}));
        }
        // bytes that are not UTF-8 at all (Latin-1 text, binary garbage): in follow mode such a line is decoded
        // lossily and matches nothing; in batch mode it is an error by design, so it is used for the follow twins only
        if sqlgen::garbage_is_noise(&cfg) && rng.chance(1, 5) {
            let pos = rng.below(items.len() + 1);
            let garbage: &[u8] = *rng.pick(&[&b"caf\xe9 au lait"[..], b"\xff\xfe\x00\x01", b"\xc3", b"\x80\x80\x80 zzz"]);
            items.insert(pos, json!({"noise": enc(garbage), "binary": true}));
        }
        let split: Vec<usize> = if rng.chance(1, 3) { vec![rng.below(items.len() + 1)] } else { Vec::new() };
        let join = query.join.is_some();
        let mut jitems: Vec<J> = Vec::new();
        if join {
            for _ in 0..rng.range(1, 8) {
                jitems.push(json!({"line": sqlgen::gen_joined_line(rng, lc.keys.min(3), 10)}));
            }
            for _ in 0..rng.range(0, 3) {
                let pos = rng.below(jitems.len() + 1);
                jitems.insert(pos, json!({"noise": enc(JOINED_NOISE[rng.below(JOINED_NOISE.len())])}));
            }
        }
        let approx_len = items.len() * 24;
        let cuts: Vec<usize> = (0..rng.below(10)).map(|_| rng.below(approx_len.max(1))).collect();
        let cfgs = gen::gen_sched_cfg(rng);
        let steps = gen::gen_steps(rng, &cfgs, cuts.len() + 1, 2, 2);
        json!({
            "prop": "C06",
            "cfg": cfg_to_json(&cfg),
            "kind": kind,
            "stmt": query.text(),
            "aggregate": query.aggregate,
            "items": items,
            "split": split,
            "jitems": jitems,
            "format": rng.pick(&["text", "text", "json"]),
            "follow": !join && rng.chance(1, 2),
            "cuts": cuts,
            "steps": steps_to_json(&steps),
            "read_mode": read_mode_to_json(&gen::gen_read_mode(rng)),
            "single": rng.chance(1, 3),
            // the file before a split point may lack its final newline (noisy twin only)
            "split_nl": !rng.chance(1, 3),
        })
    }

    fn shrink(&self, case: &J) -> Vec<J> {
        use crate::shrink::*;
        let mut out = Vec::new();
        array_field(case, "items", &mut out);
        array_field(case, "jitems", &mut out);
        array_field(case, "split", &mut out);
        bool_field(case, "split_nl", true, &mut out);
        bool_field(case, "follow", false, &mut out);
        array_field(case, "cuts", &mut out);
        steps_field(case, "steps", &mut out);
        set_field(case, "read_mode", json!("bulk"), &mut out);
        set_field(case, "format", json!("text"), &mut out);
        out
    }

    fn check(&self, case: &J, want_trace: bool) -> Outcome {
        let mut out = Outcome::default();
        let cfg = match case.get("cfg").and_then(cfg_from_json) {
            Some(c) => c,
            None => {
                out.invalid = Some("bad table configuration".to_owned());
                return out;
            }
        };
        let items = match items_from_json(case, "items") {
            Some(i) if !i.is_empty() => i,
            _ => {
                out.invalid = Some("bad items".to_owned());
                return out;
            }
        };
        let stmt = jstr(case, "stmt");
        let kind = jstr(case, "kind");
        let format = jstr(case, "format");
        let single = jbool(case, "single");
        let aggregate = jbool(case, "aggregate");
        let defs = format!("{} {}", sqlgen::table_defs(&cfg), sqlgen::JOINED_DEFS);
        let join = stmt.contains(" JOIN ");
        let features = json!({"kind": kind, "variant": case["cfg"]["variant"], "kmod": case["cfg"]["kmod"], "nmod": case["cfg"]["nmod"]});

        // render both streams; remember which noisy positions are noise
        let mut noisy: Vec<Vec<u8>> = Vec::new();
        let mut is_noise: Vec<bool> = Vec::new();
        let mut expected_rows: Vec<Option<Vec<sqlgen::Cell>>> = Vec::new();
        // (position in `noisy` before which the binary line goes, bytes)
        let mut binary: Vec<(usize, Vec<u8>)> = Vec::new();
        for it in &items {
            match it {
                Item::Unmatched(bytes) => {
                    if cfg.variant == Variant::Split {
                        out.invalid = Some("no unmatched lines for split tables".to_owned());
                        return out;
                    }
                    noisy.push(bytes.clone());
                    is_noise.push(false);
                    expected_rows.push(sqlgen::expected_row_unmatched(&cfg));
                }
                Item::Binary(bytes) => {
                    if !sqlgen::garbage_is_noise(&cfg) {
                        out.invalid = Some("garbage is a row under this table configuration".to_owned());
                        return out;
                    }
                    binary.push((noisy.len(), bytes.clone()));
                }
                Item::Row(spec) => {
                    noisy.push(sqlgen::render_line(&cfg, spec).into_bytes());
                    is_noise.push(false);
                    expected_rows.push(sqlgen::expected_row(&cfg, spec));
                }
                Item::Noise(bytes) => {
                    if bytes.contains(&b'\n') || std::str::from_utf8(bytes).is_err() {
                        out.invalid = Some("noise must be one UTF-8 line".to_owned());
                        return out;
                    }
                    noisy.push(bytes.clone());
                    is_noise.push(true);
                    expected_rows.push(None);
                }
            }
        }

        if noisy.is_empty() {
            out.invalid = Some("no decodable line".to_owned());
            return out;
        }
        // --- the admission rule on the generated family: SELECT * line by line
        let mut aspec = WorldSpec::new(&defs, "SELECT * FROM t", Mode::Engine);
        aspec.engine_lines = noisy.iter().map(|l| String::from_utf8(l.clone()).unwrap()).collect();
        let adm = run(&mut out, "admission: SELECT * line by line", &aspec, want_trace);
        if !usable(&mut out, "c06", &adm, &features) {
            return out;
        }
        if adm.status != Status::Ok || adm.engine.len() != noisy.len() {
            out.violate("c06.admission_rule", format!("SELECT * over the input reports {}", status_label(&adm.status)), features.clone());
            return out;
        }
        for (i, e) in adm.engine.iter().enumerate() {
            let line = String::from_utf8_lossy(&noisy[i]).into_owned();
            match (&expected_rows[i], e.has_row) {
                (None, true) => {
                    let what = if is_noise[i] { "a noise line (non-admitted by construction)" } else { "a line whose row fails the admission rule" };
                    out.violate("c06.admission_rule", format!("{} {:?} produced the row {}", what, line, show(&e.printed)), features.clone());
                    return out;
                }
                (Some(row), false) => {
                    out.violate("c06.admission_rule", format!("line {:?} must yield the row {:?} but produced none", line, row.iter().map(|c| c.display()).collect::<Vec<_>>()), features.clone());
                    return out;
                }
                (Some(row), true) => {
                    let expect = cfg.order.iter().zip(row.iter()).map(|(c, v)| format!("{}: {}", c, v.display())).collect::<Vec<_>>().join(", ");
                    if e.printed != vec![expect.clone()] {
                        out.violate("c06.admitted_row_differs", format!("line {:?} must yield [{}] but SELECT * printed {}", line, expect, show(&e.printed)), features.clone());
                        return out;
                    }
                }
                (None, false) => {}
            }
        }
        let admitted: Vec<bool> = expected_rows.iter().map(|r| r.is_some()).collect();

        // --- twin worlds: clean = admitted lines only, noisy = everything
        let split: Vec<usize> = jusizes(case, "split").into_iter().map(|s| s.min(noisy.len())).collect();
        let split_nl = case.get("split_nl").and_then(|x| x.as_bool()).unwrap_or(true);
        let build_files = |keep_all: bool| -> Vec<Vec<u8>> {
            let mut bounds = split.clone();
            bounds.sort();
            bounds.push(noisy.len());
            let mut files = Vec::new();
            let mut prev = 0;
            let last = bounds.len() - 1;
            for (bi, b) in bounds.into_iter().enumerate() {
                let ls: Vec<Vec<u8>> = (prev..b).filter(|i| keep_all || admitted[*i]).map(|i| noisy[i].clone()).collect();
                // a non-last file of the noisy twin may end without a newline: its last line is still one line
                // (an empty last line cannot be unterminated: it would not be a line at all)
                let final_nl = !(keep_all && bi < last && !split_nl && ls.last().map(|l| !l.is_empty()).unwrap_or(false));
                files.push(gen::join_lines(&ls, final_nl));
                prev = b;
            }
            files
        };
        let (jclean, jnoisy): (Option<Vec<u8>>, Option<Vec<u8>>) = if join {
            let mut c = Vec::new();
            let mut n = Vec::new();
            for it in jarr(case, "jitems") {
                if let Some(l) = it.get("line").and_then(|x| x.as_str()) {
                    c.push(l.as_bytes().to_vec());
                    n.push(l.as_bytes().to_vec());
                } else if let Some(x) = it.get("noise").and_then(|x| x.as_str()) {
                    let bytes = dec(x);
                    if !JOINED_NOISE.iter().any(|k| *k == bytes.as_slice()) {
                        out.invalid = Some("joined noise outside the known-noise pool".to_owned());
                        return out;
                    }
                    n.push(bytes);
                }
            }
            (Some(gen::join_lines(&c, true)), Some(gen::join_lines(&n, true)))
        } else {
            (None, None)
        };
        let mut cspec = batch_spec(&defs, &stmt, &build_files(false), jclean.as_deref());
        cspec.format = format.clone();
        cspec.single_result = single;
        let clean = run(&mut out, "clean twin (batch)", &cspec, want_trace);
        if !usable(&mut out, "c06", &clean, &features) {
            return out;
        }
        if clean.status != Status::Ok {
            out.invalid = Some(format!("clean run: {}", status_label(&clean.status)));
            return out;
        }
        let mut nspec = batch_spec(&defs, &stmt, &build_files(true), jnoisy.as_deref());
        nspec.format = format.clone();
        nspec.single_result = single;
        nspec.read_mode = read_mode_from_json(case, "read_mode");
        let noisy_res = run(&mut out, "noisy twin (batch)", &nspec, want_trace);
        if !usable(&mut out, "c06", &noisy_res, &features) {
            return out;
        }
        let n_noise_lines = admitted.iter().filter(|a| !**a).count() as u64;
        out.fault("noise_line", n_noise_lines);
        if status_label(&noisy_res.status) != "Ok" || records(&noisy_res) != records(&clean) {
            out.violate(
                "c06.noise_visible",
                format!("{}: without the non-admitted lines the query prints {} but with them {} ({})", stmt, show(&records(&clean)), show(&records(&noisy_res)), status_label(&noisy_res.status)),
                features.clone(),
            );
            return out;
        }
        if noisy_res.total_result_rows != clean.total_result_rows {
            out.violate("c06.statistics", format!("total_result_rows {} without noise, {} with noise", clean.total_result_rows, noisy_res.total_result_rows), features.clone());
            return out;
        }
        // non-trivial: a noise line between two admitted lines (or in the joined file) and output produced
        let first_adm = admitted.iter().position(|a| *a);
        let last_adm = admitted.iter().rposition(|a| *a);
        let between = match (first_adm, last_adm) {
            (Some(f), Some(l)) => (f..l).any(|i| !admitted[i]),
            _ => false,
        };
        let joined_noise = jnoisy.as_ref().map(|n| Some(n) != jclean.as_ref()).unwrap_or(false);
        let nontrivial = (between || joined_noise) && !records(&clean).is_empty();
        let h = fnv_mix(fnv(stmt.as_bytes()), fnv(serde_json::to_string(&case["items"]).unwrap().as_bytes()));
        if nontrivial {
            out.nontrivial.push(fnv_mix(h, fnv(serde_json::to_string(&case["jitems"]).unwrap().as_bytes())));
        }
        out.probe("noise_between_admitted", between as u64);
        out.probe("noise_in_joined_file", joined_noise as u64);
        out.probe("noise_first_line", (!admitted[0]) as u64);
        out.probe("noise_line_longer_than_8k_64k_128k_with_valid_record_beyond_the_boundary", items.iter().any(|it| matches!(it, Item::Noise(b) if b.len() > 8000)) as u64);
        out.probe("noise_last_line", (!admitted[admitted.len() - 1]) as u64);
        out.probe("file_without_final_newline_before_next_file", (!split_nl && !split.is_empty()) as u64);
        out.probe("noise_across_file_boundary", split.iter().any(|s| (*s > 0 && !admitted[*s - 1]) || (*s < admitted.len() && !admitted[*s])) as u64);
        out.probe(&format!("kind_{}", kind), 1);
        out.probe("default_only_row_admitted", items.iter().zip(expected_rows.iter()).any(|(it, e)| matches!(it, Item::Row(s) if s.k.is_none() && s.n.is_none() && s.r.is_none() && !s.b && s.d.is_none()) && e.is_some()) as u64);

        // --- follow mode twins
        if jbool(case, "follow") && !join {
            let mk = |keep_all: bool, scripted: bool| -> WorldSpec {
                let mut ls: Vec<Vec<u8>> = Vec::new();
                for i in 0..=noisy.len() {
                    if keep_all {
                        for (pos, bytes) in &binary {
                            if *pos == i {
                                ls.push(bytes.clone());
                            }
                        }
                    }
                    if i < noisy.len() && (keep_all || admitted[i]) {
                        ls.push(noisy[i].clone());
                    }
                }
                let content = gen::join_lines(&ls, true);
                let mut f = WorldSpec::new(&defs, &stmt, Mode::FollowExec { head: true });
                f.files.push((FOLLOW_PATH.to_owned(), Vec::new()));
                if scripted {
                    f.appends = gen::cut_chunks(&content, &jusizes(case, "cuts"));
                    f.steps = steps_from_json(case, "steps");
                    f.read_mode = read_mode_from_json(case, "read_mode");
                } else {
                    f.appends = vec![content.clone()];
                }
                f.appends.retain(|c| !c.is_empty());
                f.end_after_idle = Some(2);
                f.format = format.clone();
                f.single_result = single;
                f.event_budget = 4000 + 4 * content.len();
                f
            };
            let fclean = run(&mut out, "clean twin (follow)", &mk(false, false), want_trace);
            let fnoisy = run(&mut out, "noisy twin (follow)", &mk(true, true), want_trace);
            if !usable(&mut out, "c06", &fclean, &features) || !usable(&mut out, "c06", &fnoisy, &features) {
                return out;
            }
            if fclean.status == Status::Ok {
                if fnoisy.status != Status::Ok || fnoisy.stdout != fclean.stdout {
                    let what = if aggregate { "sequence of refreshed tables" } else { "records" };
                    out.violate(
                        "c06.noise_visible_follow",
                        format!(
                            "{}: follow mode {} differ: without noise {:?}, with noise {:?} ({})",
                            stmt,
                            what,
                            String::from_utf8_lossy(&fclean.stdout).replace("\x1B[2J\x1B[1;1H", "<cls>").chars().take(300).collect::<String>(),
                            String::from_utf8_lossy(&fnoisy.stdout).replace("\x1B[2J\x1B[1;1H", "<cls>").chars().take(300).collect::<String>(),
                            status_label(&fnoisy.status)
                        ),
                        features.clone(),
                    );
                    return out;
                }
                if nontrivial || (between && !fclean.stdout.is_empty()) {
                    out.nontrivial.push(fnv_mix(h, 77));
                }
                out.probe("follow_twins", 1);
                out.probe("follow_noise_not_utf8", (!binary.is_empty()) as u64);
            }
        }
        out
    }
}
