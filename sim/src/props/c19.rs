//! C19 — interrupting a query stops it promptly and leaves consistent output.
//!
//! Per case the interrupt position is swept exhaustively: before every seam event of the
//! uninterrupted run (line-granular serving gives every input line of the main files and of the
//! joined file its own read event), one past the end, and inside every println.

use std::collections::BTreeMap;

use serde_json::{json, Value as J};

use crate::follow::FOLLOW_PATH;
use crate::gen;
use crate::prop::{Outcome, Property};
use crate::rng::Rng;
use crate::scen::*;
use crate::seam::{EvKind, Interrupt, ReadMode, Step};
use crate::sqlgen::{self, AggCfg};
use crate::util::*;
use crate::world::{Mode, Status, WorldResult, WorldSpec};

pub struct C19;

/// bytes of file `file` served by reads strictly before event `seq`
fn served_bytes(res: &WorldResult, file: usize, seq: usize) -> usize {
    res.log.iter().take(seq).filter(|e| e.kind == EvKind::Read && e.file == file && e.ret > 0).map(|e| e.off + e.ret as usize).max().unwrap_or(0)
}

/// complete lines (newlines) of the given files served before event `seq`: counted in bytes, not in
/// read calls, so that a reader with a small buffer (several reads per line) is judged the same way
fn lines_served_before(res: &WorldResult, contents: &[(usize, &[u8])], seq: usize) -> usize {
    contents.iter().map(|(file, data)| data[..served_bytes(res, *file, seq).min(data.len())].iter().filter(|b| **b == b'\n').count()).sum()
}

fn lines_served_from(res: &WorldResult, contents: &[(usize, &[u8])], seq: usize) -> usize {
    lines_served_before(res, contents, res.log.len()) - lines_served_before(res, contents, seq)
}

impl Property for C19 {
    fn id(&self) -> &'static str {
        "C19"
    }

    fn budget(&self) -> (u64, u64) {
        (20_000, 600_000)
    }

    fn level(&self) -> &'static str {
        "fault_enumeration"
    }

    fn rule(&self) -> &'static str {
        "case = (table definition, statement [select / aggregate / join / follow-mode select], main input in 1..2 files, optional joined file of up to 35 lines, for a fifth of them with an undecodable line placed at or near an index where the loader looks at the flag). For every case the interrupt (running.store(false)) is placed before EVERY seam event of the uninterrupted run, one past its end, and inside EVERY println (exhaustive per scenario; scenarios sampled). Line-granular serving gives each input line its own read event, so 'store before the i-th load' for all i is the complete set of distinguishable interleavings of the single-writer flag. Non-trivial iff the interrupt fired strictly after the first and before the last event of the run; distinct by (case hash, interrupt position)."
    }

    fn assumptions(&self) -> Vec<String> {
        vec![
            "the ctrl-c handler's only effect on a running query is running.store(false, SeqCst) (src/main.rs:77-86); the Interrupter actor performs exactly that store, on the SUT thread at a seam event".to_owned(),
            "the flag has one writer and is loaded once per delivered line (every 10th line in the join loader): store-before-i-th-load for all i enumerates all interleavings; no thread scheduler is needed on top".to_owned(),
            "idle termination of an interrupted follower is not demanded (the property promises termination once the next line completes)".to_owned(),
            "bounds: <=12 main lines in <=2 files, <=35 joined lines; input files end with a newline".to_owned(),
        ]
    }

    fn generate(&self, rng: &mut Rng, thorough: bool) -> J {
        let _thorough = thorough;
        let kind = *rng.pick(&["select", "select", "aggregate", "aggregate", "join_select", "join_aggregate", "follow"]);
        let mut cfg = sqlgen::gen_table_cfg(rng);
        if kind == "follow" || rng.chance(1, 2) {
            cfg = sqlgen::plain_table_cfg();
        }
        let lc = sqlgen::LineCfg { null_pct: *rng.pick(&[0, 0, 20]), bad_n_pct: 0, n_range: 3, keys: rng.range(1, 4) as usize, zero_pct: 0 };
        let observable = rng.chance(1, 2);
        let join = kind.starts_with("join");
        let query = match kind {
            "follow" if rng.chance(1, 3) => {
                // follow mode with an aggregate: every delivered line refreshes the table
                let mut q = sqlgen::gen_aggregate(rng, &cfg, &AggCfg { order_insensitive: false, allow_join: false, max_aggs: 2 });
                q.having = None;
                q
            }
            "select" | "follow" => {
                if observable {
                    let mut q = sqlgen::Query::default();
                    q.projections = vec![rng.pick(&["input", "*", "k, n"]).to_string()];
                    q
                } else {
                    sqlgen::gen_select(rng, &cfg, false)
                }
            }
            "join_select" => {
                let mut q = sqlgen::gen_select(rng, &cfg, false);
                q.join = Some(sqlgen::gen_join(rng));
                q.projections = vec![rng.pick(&["t.k, u.m, w", "*", "t.n, u.k"]).to_string()];
                q.filter = None;
                q
            }
            _ => {
                let mut q = sqlgen::gen_aggregate(rng, &cfg, &AggCfg { order_insensitive: false, allow_join: false, max_aggs: 3 });
                if join {
                    q.join = Some(sqlgen::gen_join(rng));
                    q.group_by = if rng.chance(1, 2) { vec!["t.k".to_owned()] } else { Vec::new() };
                    q.projections = vec!["COUNT(*) AS cnt".to_owned(), "SUM(t.n) AS s".to_owned()];
                    if !q.group_by.is_empty() {
                        q.projections.push("t.k".to_owned());
                    }
                    q.filter = None;
                    q.having = None;
                } else if observable {
                    q.filter = None;
                    q.having = None;
                    q.projections.insert(0, "COUNT(*) AS cnt".to_owned());
                }
                q
            }
        };
        // size regime: an aggregate with hundreds of groups (a result table longer than any per-row check interval)
        let large = (kind == "aggregate") && rng.chance(if _thorough { 6 } else { 2 }, 100);
        let mut lc = lc;
        let mut query = query;
        if large {
            lc.n_range = 1_000_000;
            lc.null_pct = 0;
            query = sqlgen::Query::default();
            query.aggregate = true;
            query.group_by = vec!["n".to_owned()];
            query.projections = vec!["n".to_owned(), "COUNT(*) AS cnt".to_owned(), "MAX(r) AS m".to_owned()];
            if rng.chance(1, 2) {
                query.having = Some("COUNT(*) >= 1".to_owned());
            }
        }
        let n_main = if large { rng.range(130, 320) as usize } else { rng.range(1, 12) as usize };
        let mut lines: Vec<Vec<u8>> = Vec::new();
        for _ in 0..n_main {
            let mut spec = sqlgen::gen_line_spec(rng, &cfg, &lc);
            if spec.k.is_none() && observable {
                spec.k = Some("a".to_owned());
            }
            lines.push(sqlgen::render_line(&cfg, &spec).into_bytes());
        }
        let split = if kind != "follow" && n_main >= 2 && rng.chance(1, 3) { rng.range(1, n_main as i64 - 1) as usize } else { n_main };
        let mut files = vec![gen::join_lines(&lines[..split], true)];
        if split < n_main {
            files.push(gen::join_lines(&lines[split..], true));
        }
        let joined: Vec<Vec<u8>> = if join {
            let n_joined = *rng.pick(&[0usize, 3, 9, 10, 11, 12, 20, 21, 25, 31, 35]);
            let mut j: Vec<Vec<u8>> = (0..n_joined).map(|_| sqlgen::gen_joined_line(rng, lc.keys, 10).into_bytes()).collect();
            if rng.chance(1, 6) {
                // a joined file that starts with a block of lines that are not rows (header, comments): an interrupted
                // load may then end with an empty joined table
                for i in 0..rng.range(9, 14) {
                    j.insert(0, format!("# comment {}", i).into_bytes());
                }
            }
            j
        } else {
            Vec::new()
        };
        json!({
            "prop": "C19",
            "kind": kind,
            "defs": format!("{} {}", sqlgen::table_defs(&cfg), sqlgen::JOINED_DEFS),
            "stmt": query.text(),
            "observable": observable && !join && (kind != "aggregate" || query.group_by.is_empty()),
            "files": enc_list(&files),
            "joined": if join { J::String(enc(&gen::join_lines(&joined, true))) } else { J::Null },
            // an undecodable line in the joined file, often at an index where the loader looks at the flag
            "joined_bad_at": if join && !joined.is_empty() && rng.chance(1, 5) { json!((*rng.pick(&[10usize, 10, 20, 30, 11, 9, 0, 5, 19, 21])).min(joined.len())) } else { J::Null },
            "format": rng.pick(&["text", "text", "json", "csv"]),
            "single": rng.chance(1, 3),
            // an undecodable line at this position of the main input: an interrupt that arrives before it is
            // consumed must still end the query without an error
            "bad_at": if kind != "follow" && rng.chance(1, 6) { json!(rng.below(n_main + 1)) } else { J::Null },
            // a further input file that cannot be read at all (EIO on its first read), placed after the real ones
            "unreadable_last": kind != "follow" && rng.chance(1, 8),
            // follow mode: this percentage of the lines already exists when following starts with --head
            "finit": if kind == "follow" && rng.chance(1, 3) { json!(*rng.pick(&[100u64, 60, 30])) } else { J::Null },
        })
    }

    fn shrink(&self, case: &J) -> Vec<J> {
        use crate::shrink::*;
        let mut out = Vec::new();
        bytes_array_field(case, "files", &mut out);
        bytes_field(case, "joined", &mut out);
        num_field(case, "joined_bad_at", 0, &mut out);
        set_field(case, "joined_bad_at", J::Null, &mut out);
        set_field(case, "format", json!("text"), &mut out);
        out
    }

    fn check(&self, case: &J, want_trace: bool) -> Outcome {
        let mut out = Outcome::default();
        let kind = jstr(case, "kind");
        let defs = jstr(case, "defs");
        let stmt = jstr(case, "stmt");
        let format = jstr(case, "format");
        let single = jbool(case, "single");
        let observable = jbool(case, "observable");
        let files: Vec<Vec<u8>> = jbytes_list(case, "files").into_iter().filter(|f| !f.is_empty()).collect();
        let joined: Option<Vec<u8>> = case.get("joined").and_then(|j| j.as_str()).map(dec);
        if files.is_empty() || files.iter().any(|f| f.last() != Some(&b'\n')) || joined.as_ref().map(|j| !j.is_empty() && j.last() != Some(&b'\n')).unwrap_or(false) {
            out.invalid = Some("files must be non-empty and newline-terminated".to_owned());
            return out;
        }
        let follow = kind == "follow";
        let aggregate = kind.contains("aggregate") || (follow && stmt.to_uppercase().contains("(") && (stmt.to_uppercase().contains(" GROUP BY ") || stmt.contains("COUNT(") || stmt.contains("SUM(") || stmt.contains("MAX(") || stmt.contains("MIN(") || stmt.contains("AVG(") || stmt.contains("PERCENTILE(") || stmt.contains("STDDEV(") || stmt.contains("VARIANCE(") || stmt.contains("_AGG(") || stmt.contains("BOOL_")));
        // the joined file as the loader sees it (with the undecodable line, if any)
        let joined_bad_at: Option<usize> = if joined.is_some() { case.get("joined_bad_at").and_then(|x| x.as_u64()).map(|x| x as usize) } else { None };
        let joined: Option<Vec<u8>> = match (joined, joined_bad_at) {
            (Some(j), Some(b)) => {
                let mut ls = complete_lines(&j);
                let at = b.min(ls.len());
                ls.insert(at, vec![0xFF, b'x']);
                Some(gen::join_lines(&ls, true))
            }
            (j, _) => j,
        };
        let joined_bad_at = joined_bad_at.map(|b| b.min(joined.as_ref().map(|j| complete_lines(j).len().saturating_sub(1)).unwrap_or(0)));
        let unreadable_last = !follow && jbool(case, "unreadable_last");
        let bad_at: Option<usize> = if follow { None } else { case.get("bad_at").and_then(|x| x.as_u64()).map(|x| x as usize) };
        // the files as the query sees them (with the undecodable line, if any)
        let files_run: Vec<Vec<u8>> = match bad_at {
            None => files.clone(),
            Some(b) => {
                let mut out_files = Vec::new();
                let mut seen = 0usize;
                let mut placed = false;
                for f in &files {
                    let mut ls = complete_lines(f);
                    let original = ls.len();
                    if !placed && b <= seen + original {
                        ls.insert(b - seen, vec![0xFF, b'x']);
                        placed = true;
                    }
                    seen += original;
                    out_files.push(gen::join_lines(&ls, true));
                }
                out_files
            }
        };
        let features = json!({"kind": kind, "joined": joined.is_some()});
        let all_lines: Vec<Vec<u8>> = files.iter().flat_map(|f| complete_lines(f)).collect();
        let n_main_files = if follow { 1 } else { files.len() + (!follow && jbool(case, "unreadable_last")) as usize };
        let case_hash = fnv(serde_json::to_string(case).unwrap().as_bytes());
        let follow_content: Vec<u8> = gen::join_lines(&all_lines, true);
        let main_contents: Vec<(usize, &[u8])> = if follow { vec![(0, &follow_content[..])] } else { files_run.iter().enumerate().map(|(i, f)| (i, &f[..])).collect() };
        let joined_contents: Vec<(usize, &[u8])> = joined.as_ref().map(|j| vec![(n_main_files, &j[..])]).unwrap_or_default();

        let make_spec = |interrupt: Option<Interrupt>| -> WorldSpec {
            if follow {
                let mut spec = WorldSpec::new(&defs, &stmt, Mode::FollowExec { head: true });
                // some of the lines may already be in the file (--head catches up on them first)
                let pre = match case.get("finit").and_then(|x| x.as_u64()) {
                    Some(pct) => (all_lines.len() as u64 * pct.min(100) / 100) as usize,
                    None => 0,
                };
                spec.files.push((FOLLOW_PATH.to_owned(), gen::join_lines(&all_lines[..pre], true)));
                // lockstep writer: one whole line per append, landing one per read
                spec.appends = all_lines[pre..].iter().map(|l| { let mut v = l.clone(); v.push(b'\n'); v }).collect();
                spec.steps = vec![Step { land: 0, fault: crate::seam::Fault::None }, Step { land: 0, fault: crate::seam::Fault::None }];
                for _ in 0..all_lines.len() {
                    spec.steps.push(Step { land: 1, fault: crate::seam::Fault::None });
                    spec.steps.push(Step { land: 0, fault: crate::seam::Fault::None });
                }
                spec.end_after_idle = Some(1);
                spec.read_mode = ReadMode::Line;
                spec.format = format.clone();
                spec.single_result = single;
                spec.interrupt = interrupt;
                spec
            } else {
                let mut spec = batch_spec(&defs, &stmt, &files_run, joined.as_deref());
                if unreadable_last {
                    spec.files.push(("/simfs/unreadable.log".to_owned(), b"never seen\n".to_vec()));
                    spec.unreadable_file = Some(spec.files.len() - 1);
                }
                spec.read_mode = ReadMode::Line;
                spec.format = format.clone();
                spec.single_result = single;
                spec.interrupt = interrupt;
                spec
            }
        };

        // uninterrupted run
        let base = run(&mut out, "uninterrupted", &make_spec(None), want_trace);
        if !usable(&mut out, "c19", &base, &features) {
            return out;
        }
        let base_fails_on_bad_line = (bad_at.is_some() || unreadable_last || joined_bad_at.is_some()) && matches!(&base.status, Status::Err(msg) if msg.contains("read file"));
        out.probe("unreadable_later_input_file", unreadable_last as u64);
        out.probe("undecodable_line_in_joined_file", joined_bad_at.is_some() as u64);
        out.probe("joined_file_starts_with_non_row_lines", joined.as_ref().map(|j| j.starts_with(b"# comment")).unwrap_or(false) as u64);
        if base.status != Status::Ok && !base_fails_on_bad_line {
            // a statement that fails on this data is not a scenario for this property
            out.invalid = Some(format!("uninterrupted run: {}", status_label(&base.status)));
            return out;
        }
        out.probe("undecodable_line_after_interrupt_point", base_fails_on_bad_line as u64);
        let base_records = if follow { stdout_lines(&base) } else { records(&base) };

        // reference worlds: same statement over exactly the first c lines, uninterrupted, bulk reads
        let mut reference: BTreeMap<usize, (String, Vec<String>)> = BTreeMap::new();
        let mut get_reference = |out: &mut Outcome, c: usize| -> Option<(String, Vec<String>)> {
            if let Some(r) = reference.get(&c) {
                return Some(r.clone());
            }
            let mut remaining = c;
            let mut fs: Vec<Vec<u8>> = Vec::new();
            for f in &files {
                let ls = complete_lines(f);
                let take = remaining.min(ls.len());
                fs.push(gen::join_lines(&ls[..take], true));
                remaining -= take;
            }
            let mut spec = batch_spec(&defs, &stmt, &fs, joined.as_deref());
            spec.format = format.clone();
            spec.single_result = single;
            let r = run(out, &format!("reference over first {} lines", c), &spec, false);
            if !r.terminated() || matches!(r.status, Status::Setup(_)) {
                return None;
            }
            let entry = (status_label(&r.status), records(&r));
            reference.insert(c, entry.clone());
            Some(entry)
        };
        // the consumed-line count is visible in the output only if every line yields its record
        let observable = observable
            && if aggregate {
                count_cell(&base_records, &format) == Some(all_lines.len())
            } else {
                base_records.len() - (format == "csv" && !base_records.is_empty()) as usize == all_lines.len()
            };

        let mut follow_reference: BTreeMap<usize, Vec<u8>> = BTreeMap::new();
        let mut session_twins = 0usize;
        // interrupt positions
        let mut positions: Vec<Interrupt> = (0..=base.log.len()).map(Interrupt::AtEvent).collect();
        let prints = base.log.iter().filter(|e| matches!(e.kind, EvKind::Print | EvKind::Write)).count();
        for j in 0..prints {
            positions.push(Interrupt::AtPrint(j));
        }
        if positions.len() > 160 {
            // long run: a spread of positions instead of all of them (first and last ones always)
            let total = positions.len();
            let step = total / 40;
            positions = positions.into_iter().enumerate().filter(|(i, _)| *i < 6 || *i + 8 >= total || i % step == 0).map(|(_, p)| p).collect();
            out.probe("interrupt_positions_sampled", 1);
        }

        for pos in positions {
            let label = format!("interrupt {:?}", pos);
            let res = run(&mut out, &label, &make_spec(Some(pos.clone())), false);
            let fail = |out: &mut Outcome, class: &str, detail: String| {
                out.violate(class, format!("{}: {}", label, detail), features.clone());
            };
            if !res.terminated() {
                fail(&mut out, "c19.no_termination", format!("still running after {} events", res.log.len()));
            } else if base_fails_on_bad_line && res.interrupted_at.is_none() {
                // the undecodable line was consumed before the interrupt position was reached: same failure as uninterrupted
                if status_label(&res.status) != status_label(&base.status) {
                    fail(&mut out, "c19.not_a_prefix", format!("interrupt never reached but the run reports {} instead of {}", status_label(&res.status), status_label(&base.status)));
                }
            } else if joined_bad_at.is_some()
                && matches!(res.status, Status::Err(_))
                && res.interrupted_at.map(|e| lines_served_before(&res, &joined_contents, e) + 10 <= joined_bad_at.unwrap_or(0)).unwrap_or(false)
            {
                // the undecodable joined line lies more than ten lines behind the interrupt: reporting it means it was consumed
                let e = res.interrupted_at.unwrap_or(0);
                fail(
                    &mut out,
                    "c19.error_reported",
                    format!(
                        "interrupted after {} lines of the joined file, yet the error of its line #{} is reported ({}): more than ten further lines were consumed, or a line read ahead was looked at",
                        lines_served_before(&res, &joined_contents, e),
                        joined_bad_at.unwrap_or(0),
                        status_label(&res.status)
                    ),
                );
            } else if res.status != Status::Ok {
                // a failure is the interruption's doing unless a plain run over the consumed lines fails the same way
                let served = res.interrupted_at.map(|e| lines_served_before(&res, &main_contents, e)).unwrap_or(all_lines.len());
                let mut same = false;
                for c in (0..=served.min(all_lines.len())).rev() {
                    match get_reference(&mut out, c) {
                        Some((st, _)) if st == status_label(&res.status) => {
                            same = true;
                            break;
                        }
                        _ => {}
                    }
                }
                if same {
                    out.probe("failure_also_without_interrupt", 1);
                } else if let Status::Panic(msg) = &res.status {
                    fail(&mut out, "c19.panic", msg.clone());
                } else {
                    fail(&mut out, "c19.error_reported", format!("interrupted query reported: {}", status_label(&res.status)));
                }
            } else if let Some(e) = res.interrupted_at {
                let served_before = lines_served_before(&res, &main_contents, e);
                if follow {
                    // judged on the raw byte stream (an aggregate refresh may consist of the clear-screen sequence only)
                    if !base.stdout.starts_with(&res.stdout) {
                        let recs = stdout_lines(&res);
                        fail(&mut out, "c19.not_a_prefix", format!("printed {} which is not a prefix of the uninterrupted output {}", show(&recs), show(&base_records)));
                    } else {
                        // lines whose read happened before the interrupt may be printed, nothing later: whatever is
                        // printed must be a prefix of what an uninterrupted follower prints for exactly those lines
                        // (a separate world, because stdout is line buffered and attributing unflushed bytes of the
                        // base run to input lines would be guesswork)
                        let allowed = match follow_reference.get(&served_before) {
                            Some(a) => a.clone(),
                            None => {
                                let mut rspec = make_spec(None);
                                // the reference follower sees exactly the first `served_before` lines
                                let pre_lines = complete_lines(&rspec.files[0].1).len();
                                if served_before <= pre_lines {
                                    rspec.files[0].1 = gen::join_lines(&all_lines[..served_before], true);
                                    rspec.appends.clear();
                                } else {
                                    rspec.appends.truncate(served_before - pre_lines);
                                }
                                let r = run(&mut out, &format!("follow reference over first {} lines", served_before), &rspec, false);
                                follow_reference.insert(served_before, r.stdout.clone());
                                r.stdout
                            }
                        };
                        if !allowed.starts_with(&res.stdout) {
                            fail(&mut out, "c19.consumed_after_interrupt", format!("{} bytes were printed, more than an uninterrupted follower prints for the {} lines served before the interrupt ({} bytes)", res.stdout.len(), served_before, allowed.len()));
                        } else if aggregate && res.stdout != allowed && res.log.get(e).map(|ev| ev.kind == EvKind::Read).unwrap_or(false) {
                            // an interrupted aggregate shows the table for exactly the lines consumed: every line served
                            // before the interrupting read has been consumed by then
                            fail(&mut out, "c19.partial_table_wrong", format!("follow mode: {} lines were consumed before the interrupt but the screen holds {} bytes instead of the {} an uninterrupted follower shows for them", served_before, res.stdout.len(), allowed.len()));
                        }
                        let later_lines = lines_served_from(&res, &main_contents, e);
                        if later_lines > 1 {
                            fail(&mut out, "c19.not_prompt", format!("follower fetched {} further lines after the interrupt (one is needed to notice it)", later_lines));
                        }
                    }
                } else {
                    let c = res.total_lines as usize;
                    let recs = records(&res);
                    let in_print = matches!(pos, Interrupt::AtPrint(_));
                    // inside a println the line being processed (the last one served) counts as consumed
                    let limit = served_before;
                    if c > limit {
                        fail(&mut out, "c19.consumed_after_interrupt", format!("{} lines consumed although only {} had been served when the interrupt happened", c, limit));
                    } else if in_print && c != served_before {
                        fail(&mut out, "c19.consumed_after_interrupt", format!("interrupt inside the println of a record of line {}: {} lines consumed", served_before, c));
                    } else if joined.is_some() && lines_served_from(&res, &joined_contents, e) > 11 {
                        fail(&mut out, "c19.not_prompt", format!("{} further lines of the joined file were read after the interrupt (at most 10 + 1 allowed)", lines_served_from(&res, &joined_contents, e)));
                    } else if joined_bad_at.is_some() {
                        // no uninterrupted run over this joined file succeeds, so there is no table to compare with:
                        // such a case is judged on promptness, consumption and the error rule above only
                    } else {
                        match get_reference(&mut out, c) {
                            None => {
                                out.invalid = Some("reference run failed".to_owned());
                                return out;
                            }
                            Some((st, _)) if st != "Ok" => {
                                fail(&mut out, "c19.partial_table_wrong", format!("{} lines consumed and a table printed, but a run over exactly those lines reports {}", c, st));
                            }
                            Some((_, expected)) => {
                                if recs != expected {
                                    let class = if aggregate { "c19.partial_table_wrong" } else { "c19.not_a_prefix" };
                                    fail(&mut out, class, format!("{} lines consumed; printed {} but a run over exactly those lines prints {}", c, show(&recs), show(&expected)));
                                } else if !aggregate && (recs.len() > base_records.len() || recs[..] != base_records[..recs.len()]) {
                                    fail(&mut out, "c19.not_a_prefix", format!("printed {} which is not a prefix of the uninterrupted output {}", show(&recs), show(&base_records)));
                                } else if observable {
                                    // the consumed-line count must be visible in the output itself
                                    let header = (format == "csv" && !recs.is_empty()) as usize;
                                    let seen = if aggregate { count_cell(&recs, &format) } else { Some(recs.len() - header) };
                                    if c > 0 && seen.is_some() && seen != Some(c) {
                                        fail(&mut out, "c19.statistics", format!("statistics.total_lines = {} but the output accounts for {:?} lines", c, seen));
                                    }
                                }
                            }
                        }
                    }
                }
                if e > 0 && e + 1 < res.log.len().max(base.log.len()) {
                    let p = match pos {
                        Interrupt::AtEvent(x) => x as u64 * 2,
                        Interrupt::AtPrint(x) => x as u64 * 2 + 1,
                    };
                    out.nontrivial.push(fnv_mix(case_hash, p));
                }
                if res.log.get(e).map(|ev| ev.kind == EvKind::Read && ev.file >= n_main_files).unwrap_or(false) {
                    out.probe("interrupt_during_joined_file_load", 1);
                    // a session: the statement is given again after the interrupted attempt (same Tables, flag armed again
                    // as src/main.rs does before every statement). The interrupted attempt may leave nothing behind: the
                    // second execution prints what the uninterrupted query prints
                    if !follow && out.violation.is_none() && res.status == Status::Ok && base.status == Status::Ok && joined_bad_at.is_none() && session_twins < 4 {
                        session_twins += 1;
                        let mut sspec = make_spec(Some(pos.clone()));
                        sspec.repeat = 2;
                        sspec.rearm_between_repeats = true;
                        sspec.event_budget *= 2;
                        let sres = run(&mut out, &format!("{} then the statement again in the same session", label), &sspec, false);
                        let mut expected = records(&res);
                        expected.extend(base_records.clone());
                        if sres.status != Status::Ok {
                            fail(&mut out, "c19.session_after_interrupt", format!("statement repeated after an interrupted attempt reports {}", status_label(&sres.status)));
                        } else if records(&sres) != expected {
                            fail(&mut out, "c19.session_after_interrupt", format!("statement repeated after an attempt interrupted during the joined-file load prints {} - the uninterrupted query prints {}", show(&records(&sres)[records(&res).len().min(records(&sres).len())..]), show(&base_records)));
                        }
                        out.probe("statement_repeated_in_session_after_interrupted_join_load", 1);
                    }
                }
                if matches!(pos, Interrupt::AtPrint(_)) {
                    out.probe("interrupt_inside_println", 1);
                }
            } else {
                // the interrupt position was never reached (one past the end): the run must equal the uninterrupted one
                let recs = if follow { stdout_lines(&res) } else { records(&res) };
                if recs != base_records {
                    fail(&mut out, "c19.not_a_prefix", "interrupt after the last event changed the output".to_owned());
                }
            }
            if out.violation.is_some() {
                if want_trace {
                    let mut o2 = Outcome::default();
                    let _ = run(&mut o2, &label, &make_spec(Some(pos.clone())), true);
                    out.trace.extend(o2.trace);
                }
                return out;
            }
        }
        out.probe(&format!("kind_{}", kind), 1);
        out.probe("multi_file", (files.len() > 1) as u64);
        out.probe("aggregate_with_more_than_100_groups", (aggregate && base_records.len() > 100) as u64);
        out
    }
}

/// stdout of a follow world as non-empty lines
pub fn stdout_lines(res: &WorldResult) -> Vec<String> {
    String::from_utf8_lossy(&res.stdout).split('\n').filter(|l| !l.is_empty()).map(|l| l.to_owned()).collect()
}

/// value of the `cnt` column of a single-row aggregate result
fn count_cell(recs: &[String], format: &str) -> Option<usize> {
    match format {
        "json" => {
            let v: J = serde_json::from_str(recs.last()?).ok()?;
            v.get("cnt")?.as_u64().map(|x| x as usize)
        }
        "csv" => {
            if recs.len() != 2 {
                return None;
            }
            let idx = recs[0].split(';').position(|c| c == "cnt")?;
            recs[1].split(';').nth(idx)?.parse().ok()
        }
        _ => {
            if recs.len() != 1 {
                return None;
            }
            for part in recs[0].split(", ") {
                if let Some(v) = part.strip_prefix("cnt: ") {
                    return v.parse().ok();
                }
            }
            None
        }
    }
}
