//! C18 — output is deterministic and independent of hash seeds.
//!
//! Seam: getrandom. Every execution runs on a fresh thread whose RandomState keys are the next 16
//! bytes of the case's key stream; `Tables` (itself a HashMap) is built on that thread too. A failure
//! replays with the very keys that caused it.

use serde_json::{json, Value as J};

use crate::prop::{Outcome, Property};
use crate::rng::Rng;
use crate::scen::*;
use crate::sqlgen::JOINED_PATH;
use crate::util::*;
use crate::world::{Mode, Status, WorldSpec};

pub struct C18;

const WIDE: &str = "CREATE TABLE w(line = '^W (\\\\S+) (\\\\S+) (\\\\S+) (\\\\S+) (\\\\S+) (\\\\S+) (\\\\S+) (\\\\S+) (\\\\S+) (\\\\S+)$', line[1] => c0 TEXT, line[2] => c1 INT, line[3] => c2 REAL, line[4] => c3 TEXT, line[5] => c4 INT, line[6] => c5 REAL, line[7] => c6 TEXT, line[8] => c7 INT, line[9] => c8 REAL, line[10] => c9 TEXT);";
const JOINED: &str = "CREATE TABLE v(line = '^V (\\\\S+) (\\\\S+) (\\\\S+) (\\\\S+)$', line[1] => c0 TEXT, line[2] => c2 REAL, line[3] => x INT, line[4] => y TEXT);";

/// same table name, same column names, other groups: what the joined file's lines mean differs
const JOINED_ALT: &str = "CREATE TABLE v(line = '^V (\\\\S+) (\\\\S+) (\\\\S+) (\\\\S+)$', line[1] => c0 TEXT, line[2] => c2 REAL, line[4] => x INT, line[1] => y TEXT);";

fn decoy(i: usize) -> String {
    let names = ["alpha", "beta", "gamma", "delta", "omega", "sigma", "zeta", "kappa"];
    // every other decoy uses column names that the queried / joined table uses too
    let cols = if i % 2 == 1 { [["x", "y"], ["c0", "c2"], ["y", "c9"], ["c1", "x"]][(i / 2) % 4] } else { ["va", "vb"] };
    format!(
        "CREATE TABLE {}(line = '{}=([0-9]+) (\\\\S+)', line[1] => {}{} INT, line[2] => {}{} TEXT);",
        names[i % names.len()],
        names[i % names.len()],
        cols[0],
        if i % 2 == 1 { String::new() } else { i.to_string() },
        cols[1],
        if i % 2 == 1 { String::new() } else { i.to_string() }
    )
}

fn gen_real(rng: &mut Rng, zero_heavy: bool) -> String {
    if zero_heavy && rng.chance(1, 8) {
        // not-a-number literals are legal REAL text too (NaN != NaN, so every one of them is its own value)
        return rng.pick(&["NaN", "-NaN", "nan", "inf"]).to_string();
    }
    if zero_heavy && rng.chance(2, 3) {
        rng.pick(&["0.0", "-0.0", "0", "-0", "0.00"]).to_string()
    } else {
        crate::sqlgen::fmt_quarter(rng.range(-8, 8))
    }
}

impl Property for C18 {
    fn id(&self) -> &'static str {
        "C18"
    }

    fn budget(&self) -> (u64, u64) {
        (30_000, 300_000)
    }

    fn rule(&self) -> &'static str {
        "case = (definitions incl. up to 6 decoy tables before/after the queried one, statement [* over 10 columns / * over a join with clashing column names / GROUP BY with 6-8 aggregates and a HAVING over several more / COUNT(DISTINCT) and join keys over REAL values that are equal but not bit-identical (0.0, -0.0), TEXT, INT / an error-producing row / a join printing the joined rows' file positions (21-70 joined rows: must be joined-file order) / TEXT group keys starting with non-ASCII characters (must come out ascending)], input given as 1-3 files (rare regime: 2-5 files of thousands of lines under ARRAY_AGG / STRING_AGG / REAL sums, whose value depends on arrival order), joined file with 3-6 partners per key, K hash-key blocks [8 quick, 64 thorough], repeat count). The same query runs once per key block on a fresh thread (getrandom seam), twice under the same block, repeated inside one thread, and for a fraction of cases once under real OS entropy; all outputs must be byte-identical; so must the run with only the queried and the joined table defined (half of the other tables reuse their column names) and, for joins, the run on an engine that has loaded its joined table once before. Non-trivial iff two of the key blocks give a different iteration order to a 16-entry probe HashMap built on the same kind of thread AND the input has >=2 lines; distinct by (case content hash, key-block set)."
    }

    fn assumptions(&self) -> Vec<String> {
        vec![
            "std's RandomState takes its per-thread keys from getrandom(2) once per thread and increments them per map (checked by the start-up self-test: exactly one getrandom call per fresh thread)".to_owned(),
            "now() is excluded from the workload (the property exempts it); TZ is UTC except in the cases that vary it on purpose (fixed-offset zones, set per world)".to_owned(),
            "runs under real OS entropy are compared too but cannot be replayed by keys; a mismatch there is reported with that caveat".to_owned(),
        ]
    }

    fn generate(&self, rng: &mut Rng, thorough: bool) -> J {
        if rng.chance(if thorough { 4 } else { 1 }, 4000) {
            // huge regime: one group with more values than any in-memory cap a change might introduce (65536)
            let n = rng.range(66_000, 90_000) as usize;
            let lines: Vec<String> = (0..n).map(|i| format!("W a {} 0.5 b {} 0.25 c 1 0.75 d", (i as u64 * 7919) % 100_003, i % 7)).collect();
            let keys: Vec<[u8; 16]> = (0..3).map(|_| rng.key16()).collect();
            return json!({
                "prop": "C18",
                "kind": "huge_group",
                "defs": format!("{} {}", WIDE, JOINED),
                "stmt": "SELECT PERCENTILE(c1, 0.5) AS median, PERCENTILE(c1, 0.99) AS p99, COUNT(DISTINCT c1) AS d, COUNT(*) AS c FROM w",
                "lines": lines,
                "joined": [],
                "keys": keys_to_json(&keys),
                "repeat": 1,
                "format": "text",
                "os_entropy": false,
            });
        }
        if rng.chance(if thorough { 4 } else { 2 }, 3000) {
            // several large input files and aggregates whose value depends on the order in which rows arrive:
            // the order must be the input order (file 1, file 2, ...), however the files happen to be read
            let n = rng.range(9_000, 24_000) as usize;
            let lines: Vec<String> = (0..n).map(|i| format!("W g{} {} 0.{} t{} {} 0.25 c 1 0.75 d", i % 3, (i as u64 * 7919) % 1009, 1 + (i * 37) % 8, i % 11, i % 7)).collect();
            let keys: Vec<[u8; 16]> = (0..3).map(|_| rng.key16()).collect();
            return json!({
                "prop": "C18",
                "kind": "multi_file",
                "defs": format!("{} {}", WIDE, JOINED),
                "stmt": *rng.pick(&[
                    "SELECT c0, STRING_AGG(c3, ',') AS s, SUM(c2) AS f, AVG(c2) AS m FROM w GROUP BY c0",
                    "SELECT ARRAY_AGG(c1) AS a, STDDEV(c2) AS sd, COUNT(*) AS c FROM w",
                    "SELECT c4, ARRAY_AGG(c3) AS a, SUM(c2) AS f FROM w GROUP BY c4",
                ]),
                "lines": lines,
                "joined": [],
                "n_files": rng.range(2, 5),
                "keys": keys_to_json(&keys),
                "repeat": 1,
                "format": "text",
                "os_entropy": false,
            });
        }
        if rng.chance(1, 80) {
            // array functions over aggregated arrays of some hundred elements (beyond any small-size fast path):
            // their element order is part of the output
            let n = rng.range(70, 600) as usize;
            let lines: Vec<String> = (0..n).map(|i| format!("W g{} {} 0.{} t{} {} 0.25 c 1 0.75 d", i % 3, (i as u64 * 7919) % 1009, 1 + (i * 37) % 8, i % 11, i % 7)).collect();
            let keys: Vec<[u8; 16]> = (0..4).map(|_| rng.key16()).collect();
            return json!({
                "prop": "C18",
                "kind": "multi_file",
                "defs": format!("{} {}", WIDE, JOINED),
                "stmt": *rng.pick(&[
                    "SELECT ARRAY_UNIQUE(ARRAY_AGG(c1)) AS u, COUNT(*) AS c FROM w",
                    "SELECT c0, ARRAY_UNIQUE(ARRAY_AGG(c1)) AS u, ARRAY_LENGTH(ARRAY_AGG(c3)) AS l FROM w GROUP BY c0",
                    "SELECT c4, ARRAY_UNIQUE(ARRAY_AGG(c3)) AS u, ARRAY_UNIQUE(ARRAY_AGG(c2)) AS r FROM w GROUP BY c4",
                ]),
                "lines": lines,
                "joined": [],
                "n_files": rng.range(1, 3),
                "keys": keys_to_json(&keys),
                "repeat": 1,
                "format": "text",
                "os_entropy": false,
            });
        }
        if rng.chance(if thorough { 4 } else { 1 }, 5000) {
            // huge joined file (beyond 8 MiB): partners of one key are spread over the whole file
            let keys: Vec<[u8; 16]> = (0..3).map(|_| rng.key16()).collect();
            return json!({
                "prop": "C18",
                "kind": "huge_joined",
                "defs": format!("{} {}", WIDE, JOINED),
                "stmt": format!("SELECT w.c0, v.x, v.y FROM w INNER JOIN v::'{}' ON w.c0 = v.c0", JOINED_PATH),
                "lines": ["W kaa 1 0.5 b 2 0.25 c 1 0.75 d", "W kbc 2 0.5 b 2 0.25 c 1 0.75 d"],
                "joined": [],
                "joined_gen": {"n": rng.range(450_000, 480_000), "keys": 1000},
                "keys": keys_to_json(&keys),
                "repeat": 1,
                "format": "text",
                "os_entropy": false,
            });
        }
        let kind = *rng.pick(&["star", "star_join", "group", "group", "distinct_real", "distinct_real", "join_real", "join_int", "join_int_real", "error_row", "group_special_real", "group_special_real", "name_lookup", "many_groups", "history", "dup_names", "tz", "env", "join_order", "star_inline"]);
        let zero_heavy = kind == "distinct_real" || kind == "join_real" || kind == "group_special_real" || rng.chance(1, 4);
        // REAL values that are not ordinary numbers: NaN, infinities (legal literals for a REAL column)
        let special = kind == "group_special_real";
        // group keys that start with non-ASCII characters among keys that start with ASCII ones (for a quarter of the cases)
        let keys_txt: [&str; 3] = if rng.chance(1, 4) { *rng.pick(&[["Zoe", "adam", "Åsa"], ["émile", "b", "Örjan"], ["ß", "z", "A"]]) } else { ["a", "b", "c"] };
        let n_lines = if kind == "many_groups" { rng.range(20, 60) as usize } else if special { rng.range(4, 26) as usize } else { rng.range(2, 9) as usize };
        let mut lines: Vec<String> = Vec::new();
        for li in 0..n_lines {
            let txt = |rng: &mut Rng| rng.pick(&keys_txt).to_string();
            let int = |rng: &mut Rng| if rng.chance(1, 8) { "-".to_owned() } else { format!("{}", rng.range(-3, 3)) };
            let c0 = if kind == "many_groups" { crate::sqlgen::key_name(li % 47) } else { txt(rng) };
            let c1 = if kind == "many_groups" { format!("{}", li as i64 * 7 % 53) } else { int(rng) };
            let c2 = if special && rng.chance(1, 2) {
                rng.pick(&["NaN", "nan", "inf", "-inf", "NaN", "1e308", "-0.0"]).to_string()
            } else if rng.chance(1, 10) {
                "-".to_owned()
            } else {
                gen_real(rng, zero_heavy)
            };
            let c3 = txt(rng);
            let c4 = int(rng);
            let c5 = gen_real(rng, zero_heavy);
            let c6 = txt(rng);
            let c7 = int(rng);
            let c8 = gen_real(rng, false);
            let c9 = txt(rng);
            lines.push(format!("W {} {} {} {} {} {} {} {} {} {}", c0, c1, c2, c3, c4, c5, c6, c7, c8, c9));
        }
        let mut joined: Vec<String> = Vec::new();
        if kind.contains("join") || kind == "history" {
            for key in keys_txt.iter().take(rng.range(1, 3) as usize) {
                for _ in 0..rng.range(3, 6) {
                    let real = if kind == "join_int_real" { format!("{}.0", rng.range(-3, 3)) } else { gen_real(rng, zero_heavy) };
                    joined.push(format!("V {} {} {} {}", key, real, rng.range(-3, 3), rng.pick(&["p", "q", "r"])));
                }
            }
            rng.shuffle(&mut joined);
        }
        if kind == "join_order" {
            // more joined rows than any small-size special case covers, several partners per key, keys interleaved;
            // x is the row's position in the joined file
            joined.clear();
            for i in 0..rng.range(21, 70) {
                joined.push(format!("V {} 0.5 {} {}", rng.pick(&keys_txt), i, rng.pick(&["p", "q", "r"])));
            }
        }
        let stmt = match kind {
            "join_order" => format!("SELECT v.x FROM w INNER JOIN v::'{}' ON w.c0 = v.c0", JOINED_PATH),
            "star" => "SELECT * FROM w".to_owned(),
            // a table that mixes inline-regex columns with columns of a named pattern
            "star_inline" => "SELECT * FROM mixed".to_owned(),
            "star_join" => format!("SELECT * FROM w {} JOIN v::'{}' ON w.c0 = v.c0", rng.pick(&["INNER", "OUTER"]), JOINED_PATH),
            "group" => format!(
                "SELECT {}COUNT(*) AS a0, SUM(c1) AS a1, MIN(c1) AS a2, MAX(c4) AS a3, AVG(c2) AS a4, COUNT(DISTINCT c2) AS a5, COUNT(DISTINCT c3) AS a6, STDDEV(c5) AS a7 FROM w {}HAVING COUNT(*) >= 1 AND SUM(c4) > 0 - 100 AND MAX(c7) < 1000 AND MIN(c1) > 0 - 1000 AND COUNT(DISTINCT c9) >= 1",
                if rng.chance(2, 3) { "c0, " } else { "" },
                "GROUP BY c0 "
            ),
            "distinct_real" => format!("SELECT COUNT(DISTINCT c2) AS d2, COUNT(DISTINCT c5) AS d5{} FROM w{}", if rng.chance(1, 2) { ", c0" } else { "" }, ""),
            "join_real" => format!("SELECT w.c1, v.x, v.y FROM w {} JOIN v::'{}' ON w.c2 = v.c2", rng.pick(&["INNER", "OUTER"]), JOINED_PATH),
            "join_int" => format!("SELECT w.c0, v.c0, v.y FROM w INNER JOIN v::'{}' ON w.c1 = v.x", JOINED_PATH),
            // an INT column joined with a REAL column whose values are whole numbers
            "join_int_real" => format!("SELECT w.c0, w.c1, v.c2, v.y FROM w {} JOIN v::'{}' ON w.c1 = v.c2", rng.pick(&["INNER", "OUTER"]), JOINED_PATH),
            "group_special_real" => format!(
                "SELECT c2, COUNT(*) AS a0, SUM(c1) AS a1{} FROM w GROUP BY c2{}",
                if rng.chance(1, 2) { ", MAX(c2) AS a2, MIN(c2) AS a3" } else { "" },
                if rng.chance(1, 3) { " HAVING COUNT(*) >= 1" } else { "" }
            ),
            "name_lookup" => {
                // the query names a table by a spelling that is not defined exactly; several look-alikes are
                format!("SELECT * FROM {}", rng.pick(&["W", "wide", "Wide", "v2", "w "]).trim())
            }
            // several output names used more than once (JSON output has one key per name)
            "dup_names" => "SELECT c0 AS a, c1 AS a, c3 AS b, c4 AS b, c6 AS c, c7 AS c, c9 AS a FROM w".to_owned(),
            // text turned into timestamps: local time in, local time out, whatever the zone
            // plain query whose CSV rendering must not depend on the locale of the process
            "env" => "SELECT c0, c1, c2, c3 FROM w".to_owned(),
            "tz" => "SELECT c0, '2022-10-11 22:00:00'::timestamp AS t1, '2021-03-28 02:30:00'::timestamp AS t2, EXTRACT(HOUR FROM '2022-01-05 07:08:09'::timestamp) AS h FROM w".to_owned(),
            "history" => format!("SELECT w.c0, v.c0, v.y, v.x FROM w {} JOIN v::'{}' ON w.c0 = v.c0", rng.pick(&["INNER", "OUTER"]), JOINED_PATH),
            "many_groups" => format!(
                "SELECT {} COUNT(*) AS a0, SUM(c4) AS a1, COUNT(DISTINCT c3) AS a2 FROM w GROUP BY {}{}",
                rng.pick(&["c0,", "c1,", "c0, c1,"]),
                "",
                ""
            ),
            _ => "SELECT c1 + 1 AS p, c0 + 1 AS q FROM w".to_owned(),
        };
        // many_groups: GROUP BY list must match the keys in the select list
        let stmt = if kind == "many_groups" {
            let keys = stmt.trim_start_matches("SELECT ").split(" COUNT(*)").next().unwrap_or("").trim().trim_end_matches(',').to_owned();
            format!("{}{}", stmt, keys)
        } else {
            stmt
        };
        // distinct_real with the group key in the select list needs GROUP BY
        let stmt = if kind == "distinct_real" && stmt.contains(", c0") { format!("{} GROUP BY c0", stmt) } else { stmt };
        let n_before = rng.below(4);
        let n_after = rng.below(4);
        let mut defs = String::new();
        for i in 0..n_before {
            defs.push_str(&decoy(i));
            defs.push(' ');
        }
        defs.push_str(WIDE);
        defs.push(' ');
        defs.push_str(JOINED);
        for i in 0..n_after {
            defs.push(' ');
            defs.push_str(&decoy(4 + i));
        }
        if kind == "star_inline" {
            defs.push_str(" CREATE TABLE mixed(line = '^W (\\\\S+) (\\\\S+)', 'W \\\\S+ \\\\S+ (\\\\S+)' => i3 TEXT, line[1] => n1 TEXT, 'W \\\\S+ \\\\S+ \\\\S+ (\\\\S+)' => i4 TEXT, line[2] => n2 TEXT, '^W (\\\\S+)' => i1 TEXT);");
        }
        if kind == "name_lookup" {
            // tables whose names differ from the queried spelling only by case / a suffix
            for (ti, name) in ["WIDE", "wIDE", "widE", "V2", "vv"].iter().enumerate() {
                if rng.chance(2, 3) {
                    // every look-alike extracts other groups under other column names
                    defs.push_str(&format!(" CREATE TABLE {}(line = '^W (\\\\S+) (\\\\S+) (\\\\S+)', line[{}] => x{} TEXT, line[{}] => y{} TEXT);", name, 1 + ti % 3, ti, 1 + (ti + 1) % 3, ti));
                }
            }
        }
        let k = if thorough { 64 } else { 8 };
        let keys: Vec<[u8; 16]> = (0..k).map(|_| rng.key16()).collect();
        json!({
            "prop": "C18",
            "kind": kind,
            "defs": defs,
            "stmt": stmt,
            "lines": lines,
            "joined": joined,
            "keys": keys_to_json(&keys),
            "repeat": rng.range(1, 3),
            "n_files": *rng.pick(&[1, 1, 1, 2, 3]),
            "format": if special { *rng.pick(&["text", "csv"]) } else if kind == "dup_names" { "json" } else if kind == "env" { "csv" } else if kind == "join_order" { "text" } else { *rng.pick(&["text", "json", "csv"]) },
            "os_entropy": rng.chance(1, 16),
        })
    }

    fn shrink(&self, case: &J) -> Vec<J> {
        use crate::shrink::*;
        let mut out = Vec::new();
        array_field(case, "keys", &mut out);
        array_field(case, "lines", &mut out);
        array_field(case, "joined", &mut out);
        num_field(case, "repeat", 1, &mut out);
        num_field(case, "n_files", 1, &mut out);
        set_field(case, "format", json!("text"), &mut out);
        bool_field(case, "os_entropy", false, &mut out);
        // drop decoy tables
        let defs = jstr(case, "defs");
        let core = format!("{} {}", WIDE, JOINED);
        if defs != core {
            out.push(with_field(case, "defs", json!(core)));
        }
        out
    }

    fn check(&self, case: &J, want_trace: bool) -> Outcome {
        let mut out = Outcome::default();
        let defs = jstr(case, "defs");
        let stmt = jstr(case, "stmt");
        let format = jstr(case, "format");
        let kind = jstr(case, "kind");
        let lines: Vec<String> = jarr(case, "lines").iter().filter_map(|l| l.as_str()).map(|s| s.to_owned()).collect();
        let joined: Vec<String> = jarr(case, "joined").iter().filter_map(|l| l.as_str()).map(|s| s.to_owned()).collect();
        let keys = keys_from_json(case, "keys");
        if keys.is_empty() || lines.iter().chain(joined.iter()).any(|l| l.contains('\n')) || stmt.to_lowercase().contains("now(") {
            out.invalid = Some("needs keys, single-line items and no now()".to_owned());
            return out;
        }
        let repeat = jusize(case, "repeat", 1).clamp(1, 4);
        let features = json!({"kind": kind, "signed_zero": lines.iter().chain(joined.iter()).any(|l| l.contains(" -0"))});
        let file: Vec<u8> = lines.iter().map(|l| format!("{}\n", l)).collect::<String>().into_bytes();
        // the same lines given as several input files, in order
        let n_files = jusize(case, "n_files", 1).clamp(1, 8).min(lines.len().max(1));
        let per_file = (lines.len() + n_files - 1) / n_files.max(1);
        let files: Vec<Vec<u8>> = if n_files <= 1 { vec![file.clone()] } else { lines.chunks(per_file.max(1)).map(|c| c.iter().map(|l| format!("{}\n", l)).collect::<String>().into_bytes()).collect() };
        let mut jfile: Vec<u8> = joined.iter().map(|l| format!("{}\n", l)).collect::<String>().into_bytes();
        if let Some(g) = case.get("joined_gen") {
            // compact description of a huge joined file: line i joins on key number i % keys
            let n = g.get("n").and_then(|x| x.as_u64()).unwrap_or(0).min(600_000) as usize;
            let keys = g.get("keys").and_then(|x| x.as_u64()).unwrap_or(1).max(1) as usize;
            let mut text = String::with_capacity(n * 30);
            for i in 0..n {
                text.push_str(&format!("V {} 0.5 {} p{}\n", crate::sqlgen::key_name(5 + i % keys), i, i % 7));
            }
            jfile = text.into_bytes();
            out.probe("joined_file_over_8_mib", (jfile.len() > 8 * 1024 * 1024) as u64);
        }
        let make = |key: Option<[u8; 16]>, repeat: usize| -> WorldSpec {
            let mut b = batch_spec(&defs, &stmt, &files, Some(&jfile));
            b.format = format.clone();
            b.repeat = repeat;
            match key {
                Some(k) => b.keys = vec![k],
                None => b.real_entropy = true,
            }
            b
        };
        let mut first: Option<(String, Vec<String>, [u8; 16])> = None;
        let mut probe_orders: Vec<Vec<u8>> = Vec::new();
        for (i, key) in keys.iter().enumerate() {
            let res = run(&mut out, &format!("key block #{} {}", i, keys_to_json(&[*key])[0]), &make(Some(*key), 1), want_trace && i < 2);
            if !usable(&mut out, "c18", &res, &features) {
                return out;
            }
            let obs = (status_label(&res.status), records(&res));
            match &first {
                None => first = Some((obs.0, obs.1, *key)),
                Some((s0, r0, k0)) => {
                    if *s0 != obs.0 || *r0 != obs.1 {
                        out.violate(
                            "c18.depends_on_hash_keys",
                            format!("{}: under hash keys {} the output is {} {} but under keys {} it is {} {}", stmt, keys_to_json(&[*k0])[0], s0, show(r0), keys_to_json(&[*key])[0], obs.0, show(&obs.1)),
                            features.clone(),
                        );
                        if want_trace {
                            let mut o2 = Outcome::default();
                            let _ = run(&mut o2, "differing key block", &make(Some(*key), 1), true);
                            out.trace.extend(o2.trace);
                        }
                        return out;
                    }
                }
            }
            // what order does this block give a probe map?
            let mut p = WorldSpec::new("", "", Mode::HashProbe);
            p.keys = vec![*key];
            let pr = crate::world::run_world(&p);
            if let Some(o) = pr.delivered().first() {
                if !probe_orders.contains(o) {
                    probe_orders.push(o.clone());
                }
            }
        }
        let (s0, r0, k0) = first.clone().unwrap();
        // the same block twice: plain repeatability
        let again = run(&mut out, "first key block again", &make(Some(k0), 1), false);
        if status_label(&again.status) != s0 || records(&again) != r0 {
            out.violate("c18.not_repeatable", format!("{}: two executions under the same hash keys differ: {} vs {}", stmt, show(&r0), show(&records(&again))), features.clone());
            return out;
        }
        // repeated execution inside one thread (each HashMap::new advances the key counter)
        if repeat > 1 {
            let rep = run(&mut out, "repeated inside one thread", &make(Some(k0), repeat), false);
            let mut expect = Vec::new();
            for _ in 0..repeat {
                expect.extend(r0.clone());
            }
            let single_status_ok = s0 == "Ok";
            if rep.terminated() && single_status_ok && (rep.status != Status::Ok || records(&rep) != expect) {
                out.violate("c18.repeat_in_process_differs", format!("{}: {} executions inside one thread print {} instead of {} copies of {}", stmt, repeat, show(&records(&rep)), repeat, show(&r0)), features.clone());
                return out;
            }
            out.probe("repeated_in_one_thread", 1);
        }
        if jbool(case, "os_entropy") && std::env::var("VERIF_NO_OS_ENTROPY").is_err() {
            let real = run(&mut out, "real OS entropy", &make(None, 1), false);
            if status_label(&real.status) != s0 || records(&real) != r0 {
                out.violate(
                    "c18.depends_on_hash_keys",
                    format!("{}: under real OS entropy (not replayable by keys) the output is {} but under keys {} it is {}", stmt, show(&records(&real)), keys_to_json(&[k0])[0], show(&r0)),
                    features.clone(),
                );
                return out;
            }
            out.probe("os_entropy_runs", 1);
        }
        if kind == "star" && s0 == "Ok" {
            // "`*` columns in definition order", in every output format
            for r in r0.iter() {
                let pos: Vec<Option<usize>> = (0..10).map(|i| match format.as_str() {
                    "json" => r.find(&format!("\"c{}\":", i)),
                    "csv" => None,
                    _ => r.find(&format!("c{}: ", i)),
                }).collect();
                if pos.iter().all(|p| p.is_some()) && pos.windows(2).any(|w| w[0] >= w[1]) {
                    out.violate("c18.column_order", format!("{}: columns of `*` are not in definition order c0..c9 in the record {}", stmt, r), features.clone());
                    return out;
                }
            }
            if format == "csv" {
                if let Some(h) = r0.first() {
                    let names: Vec<&str> = h.split(';').collect();
                    let want: Vec<String> = (0..10).map(|i| format!("c{}", i)).collect();
                    if names.len() == 10 && names.iter().all(|n| n.starts_with('c')) && names.iter().map(|n| n.to_string()).collect::<Vec<_>>() != want {
                        out.violate("c18.column_order", format!("{}: CSV header {} is not the definition order c0..c9", stmt, h), features.clone());
                        return out;
                    }
                }
            }
            out.probe("star_column_order_checked", 1);
        }
        if kind == "star_inline" && s0 == "Ok" {
            // definition order of the mixed table: i3, n1, i4, n2, i1
            for r in r0.iter() {
                let pos: Vec<Option<usize>> = ["i3", "n1", "i4", "n2", "i1"].iter().map(|c| match format.as_str() {
                    "json" => r.find(&format!("\"{}\":", c)),
                    "csv" => if r.contains("i3;") || r.contains(";i3") { r.find(c) } else { None },
                    _ => r.find(&format!("{}: ", c)),
                }).collect();
                if pos.iter().all(|p| p.is_some()) && pos.windows(2).any(|w| w[0] >= w[1]) {
                    out.violate("c18.column_order", format!("{}: columns of `*` are not in definition order i3, n1, i4, n2, i1 in the record {}", stmt, r), features.clone());
                    return out;
                }
                if pos.iter().all(|p| p.is_some()) {
                    out.probe("star_inline_column_order_checked", 1);
                }
            }
        }
        if kind == "join_order" && s0 == "Ok" {
            // "joined partners in joined-file order": x is the position of the joined row in its file
            let mut expect: Vec<i64> = Vec::new();
            for l in &lines {
                let key = l.split(' ').nth(1).unwrap_or("");
                for (i, j) in joined.iter().enumerate() {
                    if j.split(' ').nth(1) == Some(key) {
                        expect.push(i as i64);
                    }
                }
            }
            let got: Vec<i64> = r0.iter().filter_map(|r| r.rsplit(|c: char| !(c.is_ascii_digit() || c == '-')).next().and_then(|t| t.parse::<i64>().ok())).collect();
            if got != expect {
                out.violate("c18.partner_order", format!("{}: joined rows come out as positions {:?} of the joined file, in joined-file order they are {:?}", stmt, got, expect), features.clone());
                return out;
            }
            out.probe("partner_order_checked", 1);
        }
        if (kind == "group" || kind == "many_groups") && s0 == "Ok" && format == "text" && stmt.starts_with("SELECT c0,") && !stmt.starts_with("SELECT c0, c1,") {
            // "groups in ascending key order" (TEXT keys: order of their UTF-8 bytes / code points)
            let keys_out: Vec<String> = r0.iter().filter_map(|r| r.strip_prefix("c0: '").and_then(|t| t.split('\'').next()).map(|t| t.to_owned())).collect();
            if keys_out.len() == r0.len() && keys_out.windows(2).any(|w| w[0].as_bytes() >= w[1].as_bytes()) {
                out.violate("c18.group_order", format!("{}: groups come out in the order {:?}, which is not ascending", stmt, keys_out), features.clone());
                return out;
            }
            out.probe("group_order_checked", (keys_out.len() == r0.len() && keys_out.len() >= 2) as u64);
            out.probe("group_keys_start_with_non_ascii", keys_out.iter().any(|k| !k.is_ascii()) as u64);
        }
        if stmt.contains(" JOIN ") && kind != "huge_joined" {
            // an engine that has loaded its joined table before (the constructor the Python wrapper uses) and loads it
            // again when the executor starts: what was loaded earlier must not show
            let mut b = make(Some(k0), 1);
            b.preload_join = true;
            let r = run(&mut out, "joined table loaded once before the run", &b, false);
            if status_label(&r.status) != s0 || records(&r) != r0 {
                out.violate(
                    "c18.depends_on_process_history",
                    format!("{}: on an engine that had loaded its joined table once before, the output is {} {} instead of {} {}", stmt, status_label(&r.status), show(&records(&r)), s0, show(&r0)),
                    features.clone(),
                );
                return out;
            }
            out.probe("joined_table_loaded_twice", 1);
        }
        if kind != "name_lookup" && defs.matches("CREATE TABLE").count() > 2 {
            // "irrespective of which other tables are defined": the same query with only its own tables defined
            // (plus the queried table itself where that is neither of the two)
            let own = defs.find(" CREATE TABLE mixed(").map(|at| defs[at..].split_inclusive(");").next().unwrap_or("").to_owned()).unwrap_or_default();
            let core = format!("{} {}{}", WIDE, JOINED, own);
            let mut b = make(Some(k0), 1);
            b.defs = core;
            let r = run(&mut out, "only the queried and the joined table defined", &b, false);
            if status_label(&r.status) != s0 || records(&r) != r0 {
                out.violate(
                    "c18.depends_on_other_tables",
                    format!("{}: with the other tables defined the output is {} {} but with only the queried and the joined table {} {}", stmt, s0, show(&r0), status_label(&r.status), show(&records(&r))),
                    features.clone(),
                );
                return out;
            }
            out.probe("compared_with_no_other_tables_defined", 1);
        }
        if kind == "env" {
            // locale variables of the process are ambient state too
            for (k, v) in [("LANG", "en_US.UTF-8"), ("LC_ALL", "ja_JP.UTF-8"), ("LC_NUMERIC", "en_GB.UTF-8"), ("LANG", "de_DE.UTF-8"), ("LC_ALL", "C")] {
                let mut b = make(Some(k0), 1);
                b.env = vec![(k.to_owned(), v.to_owned())];
                let r = run(&mut out, &format!("{}={}", k, v), &b, false);
                if status_label(&r.status) != s0 || records(&r) != r0 {
                    out.violate("c18.depends_on_environment", format!("{}: with {}={} the output is {} {} but without it {} {}", stmt, k, v, status_label(&r.status), show(&records(&r)), s0, show(&r0)), features.clone());
                    return out;
                }
            }
            out.probe("locale_variables_varied", 1);
        }
        if kind == "tz" {
            // the zone of the process is ambient state as well: local time in, local time out
            for tz in ["JST-9", "XYZ+3:30", "UTC0", "AAA-13"] {
                let mut b = make(Some(k0), 1);
                b.tz = Some(tz.to_owned());
                let r = run(&mut out, &format!("TZ={}", tz), &b, false);
                if status_label(&r.status) != s0 || records(&r) != r0 {
                    out.violate("c18.depends_on_environment", format!("{}: with TZ={} the output is {} {} but with TZ=UTC it is {} {}", stmt, tz, status_label(&r.status), show(&records(&r)), s0, show(&r0)), features.clone());
                    return out;
                }
            }
            out.probe("time_zones_varied", 1);
        }
        if kind == "history" {
            // What ran earlier in the process must not matter: the same query Q, then a query P that joins the
            // SAME file under the SAME table name but another definition of that table, then Q and P again; each
            // must print what it prints when its joined file is reached through a path nothing has touched.
            let alt_defs = defs.replace(JOINED, JOINED_ALT);
            let run_q = |out: &mut Outcome, d: &str, path: &str, label: &str| {
                let st = stmt.replace(JOINED_PATH, path);
                let mut b = batch_spec(d, &st, &[file.clone()], None);
                b.extra_files.push((path.to_owned(), jfile.clone()));
                b.format = format.clone();
                b.keys = vec![k0];
                let r = run(out, label, &b, false);
                (status_label(&r.status), records(&r))
            };
            let ref_q = run_q(&mut out, &defs, "/simfs/history_ref_q.log", "Q through an untouched path");
            let ref_p = run_q(&mut out, &alt_defs, "/simfs/history_ref_p.log", "P through an untouched path");
            let q1 = run_q(&mut out, &defs, JOINED_PATH, "Q");
            let p1 = run_q(&mut out, &alt_defs, JOINED_PATH, "P after Q (same file, same table name, other definition)");
            let q2 = run_q(&mut out, &defs, JOINED_PATH, "Q after P");
            let p2 = run_q(&mut out, &alt_defs, JOINED_PATH, "P again");
            for (name, got, want) in [("Q", &q1, &ref_q), ("P after Q", &p1, &ref_p), ("Q after P", &q2, &ref_q), ("P again", &p2, &ref_p)] {
                if got != want {
                    out.violate(
                        "c18.depends_on_process_history",
                        format!("{}: {} prints {} {} but the same query with the joined file reached through a fresh path prints {} {}", stmt, name, got.0, show(&got.1), want.0, show(&want.1)),
                        features.clone(),
                    );
                    return out;
                }
            }
            out.probe("history_sequences", 1);
        }
        if probe_orders.len() >= 2 && lines.len() >= 2 {
            let h = fnv_mix(fnv(serde_json::to_string(&json!([defs, stmt, lines, joined])).unwrap().as_bytes()), fnv(serde_json::to_string(&case["keys"]).unwrap().as_bytes()));
            out.nontrivial.push(h);
        }
        out.probe("distinct_probe_orders", probe_orders.len() as u64);
        out.probe(&format!("kind_{}", kind), 1);
        out.probe("signed_zero_in_data", lines.iter().chain(joined.iter()).any(|l| l.contains(" -0")) as u64);
        out.probe("several_input_files", (files.len() > 1) as u64);
        out.probe("decoy_tables", (defs.matches("CREATE TABLE").count() > 2) as u64);
        out
    }
}
