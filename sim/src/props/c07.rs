//! C07 — LIMIT n outputs exactly the first n rows of the unlimited result, and a non-aggregate
//! query consumes no input beyond the line that produced its n-th row (follow mode: stops without
//! waiting for another line).

use serde_json::{json, Value as J};

use crate::follow::FOLLOW_PATH;
use crate::gen;
use crate::prop::{Outcome, Property};
use crate::rng::Rng;
use crate::scen::*;
use crate::seam::{EvKind, ReadMode};
use crate::sqlgen::{self, AggCfg};
use crate::util::*;
use crate::world::{Mode, Status, WorldSpec};

use super::c19::stdout_lines;

pub struct C07;

impl Property for C07 {
    fn id(&self) -> &'static str {
        "C07"
    }

    fn budget(&self) -> (u64, u64) {
        (80_000, 2_400_000)
    }

    fn rule(&self) -> &'static str {
        "case = (table definition, statement [plain / DISTINCT / NULL-only projections / INNER or OUTER JOIN with fan-out / aggregate], input lines incl. non-admitted noise, split over 1..3 files, joined file, read granularity, twins [print_result=false / the same query twice in one process under one interrupt flag / an engine handed to the executor after the caller fed it the lines up to the limit]). LIMIT n is swept over n = 0..rows+2 per case, each n in batch mode and (non-join, non-aggregate statements) in follow mode under a generated writer/poll schedule. Reference: the same statement without LIMIT fed line by line, attributing every output row to its input line. Non-trivial iff the unlimited reference has >=2 rows and n is below that, or n = 0; distinct by (statement shape, n, file split, content hash, mode)."
    }

    fn assumptions(&self) -> Vec<String> {
        vec![
            "consumption is judged at line level (statistics.total_lines and, under line-granular serving, the number of lines fetched): raw read-ahead of a BufRead is not input consumption".to_owned(),
            "follow-mode liveness: after the line that yields the n-th row the writer stops and every read returns EOF; execute must return by itself within 64 further seam events".to_owned(),
            "the prefix clause is decided on the generated statement family, not on arbitrary SELECTs".to_owned(),
            "aggregates with LIMIT are checked in batch mode only, as the property states".to_owned(),
        ]
    }

    fn generate(&self, rng: &mut Rng, thorough: bool) -> J {
        let cfg = if rng.chance(1, 2) { sqlgen::plain_table_cfg() } else { sqlgen::gen_table_cfg(rng) };
        let mut lc = sqlgen::gen_line_cfg(rng);
        let kind = *rng.pick(&["select", "select", "select", "nullrows", "join", "join", "aggregate"]);
        // size regime: beyond every small constant a change could hide behind (many lines / groups)
        let large = rng.chance(if thorough { 10 } else { 2 }, 100);
        if large {
            lc.keys = rng.range(20, 60) as usize;
            lc.n_range = 1_000_000;
            lc.null_pct = *rng.pick(&[0, 10]);
        }
        let query = match kind {
            "select" => sqlgen::gen_select(rng, &cfg, false),
            "nullrows" => {
                // projections that are NULL on many rows
                let mut q = sqlgen::Query::default();
                q.projections = vec![rng.pick(&["n", "r", "n, r", "n + 1 AS n1"]).to_string()];
                q.distinct = rng.chance(1, 5);
                q
            }
            "join" => {
                let mut q = sqlgen::gen_select(rng, &cfg, false);
                q.join = Some(sqlgen::gen_join(rng));
                q.projections = vec![rng.pick(&["t.k, u.m, w", "*", "t.n, u.k", "u.m"]).to_string()];
                q.filter = match rng.below(4) {
                    0 => Some(sqlgen::gen_filter(rng, &cfg, "t.")),
                    1 => Some(sqlgen::gen_filter_joined(rng)),
                    _ => None,
                };
                q
            }
            _ => {
                let mut q = sqlgen::gen_aggregate(rng, &cfg, &AggCfg { order_insensitive: false, allow_join: !large, max_aggs: 3 });
                if large && rng.chance(3, 4) {
                    // many groups
                    q.group_by = vec!["n".to_owned()];
                    q.projections = vec!["n".to_owned(), "COUNT(*) AS c".to_owned(), "SUM(n) AS s".to_owned()];
                    q.having = if rng.chance(2, 3) { Some(format!("n >= {}", rng.range(0, 50_000))) } else { None };
                }
                q
            }
        };
        let n_lines = if large {
            if kind == "aggregate" { rng.range(1050, if thorough { 6000 } else { 1800 }) as usize } else { rng.range(30, 150) as usize }
        } else {
            rng.range(0, 10) as usize
        };
        let noise_pct = *rng.pick(&[0, 0, 20]);
        let mut lines: Vec<Vec<u8>> = Vec::new();
        for _ in 0..n_lines {
            if rng.below(100) < noise_pct && sqlgen::noise_possible(&cfg) {
                lines.push(sqlgen::gen_noise(rng, &cfg));
            } else {
                let mut spec = sqlgen::gen_line_spec(rng, &cfg, &lc);
                if kind == "nullrows" && rng.chance(1, 2) {
                    spec.n = None;
                    spec.r = None;
                    if spec.k.is_none() {
                        spec.k = Some("a".to_owned());
                    }
                }
                lines.push(sqlgen::render_line(&cfg, &spec).into_bytes());
            }
        }
        // cut into 1..3 files at line boundaries
        let n_files = rng.range(1, 3) as usize;
        let mut cuts: Vec<usize> = (0..n_files - 1).map(|_| rng.below(n_lines + 1)).collect();
        cuts.sort();
        let mut files = Vec::new();
        let mut prev = 0;
        for c in cuts.iter().chain(std::iter::once(&n_lines)) {
            // now and then a file whose last line has no newline (never an empty last line: that would be no line)
            let unterminated = rng.chance(1, 6) && lines[prev..*c].last().map(|l| !l.is_empty()).unwrap_or(false);
            files.push(gen::join_lines(&lines[prev..*c], !unterminated));
            prev = *c;
        }
        let joined: Vec<Vec<u8>> = if query.join.is_some() {
            let n_joined = rng.range(0, 9) as usize;
            (0..n_joined).map(|_| sqlgen::gen_joined_line(rng, lc.keys.min(2), 10).into_bytes()).collect()
        } else {
            Vec::new()
        };
        // follow-mode schedule for the appended content
        let content = gen::join_lines(&lines, true);
        let fcuts = gen::gen_cuts(rng, &content, 20);
        let cfgs = gen::gen_sched_cfg(rng);
        let steps = gen::gen_steps(rng, &cfgs, fcuts.len() + 1, 2, 2);
        json!({
            "prop": "C07",
            "kind": kind,
            "defs": format!("{} {}", sqlgen::table_defs(&cfg), sqlgen::JOINED_DEFS),
            "stmt": query.text(),
            "files": enc_list(&files),
            "joined": if query.join.is_some() { J::String(enc(&gen::join_lines(&joined, true))) } else { J::Null },
            "format": rng.pick(&["text", "text", "json"]),
            "read_mode": if rng.chance(2, 3) { json!("line") } else { read_mode_to_json(&gen::gen_read_mode(rng)) },
            "follow": query.join.is_none() && !query.aggregate && rng.chance(1, 2),
            "fcuts": fcuts,
            // follow run: percentage of the content that already exists at start-up (--head)
            "finit": if rng.chance(1, 3) { json!(*rng.pick(&[100u64, 100, 50, 30, 80])) } else { J::Null },
            "fsteps": steps_to_json(&steps),
            "only_n": J::Null,
            "single": rng.chance(1, 3),
            "noprint": rng.chance(1, 8),
            // the same query a second time in the same process with the same interrupt flag; an engine handed to the
            // executor after the caller has fed it the lines up to the limit itself
            "twice": rng.chance(1, 8),
            // LIMIT written before WHERE / GROUP BY / HAVING (clauses may come in any order)
            "limit_first": rng.chance(1, 6),
            "handover": rng.chance(1, 8),
            "api_twice": rng.chance(1, 3),
            // "no limit" written as a very large LIMIT
            "huge_n": rng.chance(1, 4),
            // the inputs are pipes (`cmd | sqlgrep --stdin`): whatever is read beyond the limit is lost to the producer
            "pipe": rng.chance(1, 8),
        })
    }

    fn shrink(&self, case: &J) -> Vec<J> {
        use crate::shrink::*;
        let mut out = Vec::new();
        if case.get("only_n").map(|x| x.is_null()).unwrap_or(true) {
            // pin the failing n first: every later candidate then costs one world instead of a sweep
            for n in (0..8u64).chain([1_000_000_000_000u64, 9_223_372_036_854_775_807u64]) {
                out.push(with_field(case, "only_n", json!(n)));
            }
        }
        bytes_array_field(case, "files", &mut out);
        bytes_field(case, "joined", &mut out);
        array_field(case, "fcuts", &mut out);
        set_field(case, "finit", J::Null, &mut out);
        steps_field(case, "fsteps", &mut out);
        set_field(case, "format", json!("text"), &mut out);
        set_field(case, "read_mode", json!("line"), &mut out);
        bool_field(case, "follow", false, &mut out);
        bool_field(case, "noprint", false, &mut out);
        bool_field(case, "twice", false, &mut out);
        bool_field(case, "limit_first", false, &mut out);
        bool_field(case, "handover", false, &mut out);
        bool_field(case, "api_twice", false, &mut out);
        bool_field(case, "huge_n", false, &mut out);
        bool_field(case, "pipe", false, &mut out);
        if case.get("only_n").map(|x| x.is_null()).unwrap_or(true) {
            for n in 0..6 {
                out.push(with_field(case, "only_n", json!(n)));
            }
        }
        out
    }

    fn check(&self, case: &J, want_trace: bool) -> Outcome {
        let mut out = Outcome::default();
        let kind = jstr(case, "kind");
        let defs = jstr(case, "defs");
        let stmt = jstr(case, "stmt");
        let format = jstr(case, "format");
        let single = jbool(case, "single");
        let files = jbytes_list(case, "files");
        let joined: Option<Vec<u8>> = case.get("joined").and_then(|j| j.as_str()).map(dec);
        let read_mode = read_mode_from_json(case, "read_mode");
        let want_follow = jbool(case, "follow");
        if files.is_empty() || stmt.to_uppercase().contains(" LIMIT ") {
            out.invalid = Some("needs files and a statement that does not carry its own LIMIT".to_owned());
            return out;
        }
        // a file may end without a newline: its last line is a line all the same
        let all_lines: Vec<Vec<u8>> = files.iter().flat_map(|f| model_lines(f)).collect();
        if all_lines.iter().any(|l| std::str::from_utf8(l).is_err()) {
            out.invalid = Some("content is not UTF-8".to_owned());
            return out;
        }
        let case_hash = fnv(serde_json::to_string(case).unwrap().as_bytes());

        // --- reference: unlimited, line by line, rows attributed to lines (non-aggregate statements; an aggregate
        // fed line by line would rebuild and print its whole table at every line - quadratic in the size regimes)
        let base_features = json!({"kind": kind});
        let reference = if kind == "aggregate" {
            None
        } else {
            let mut rspec = WorldSpec::new(&defs, &stmt, Mode::Engine);
            rspec.engine_lines = all_lines.iter().map(|l| String::from_utf8(l.clone()).unwrap()).collect();
            if let Some(j) = &joined {
                rspec.extra_files.push((sqlgen::JOINED_PATH.to_owned(), j.clone()));
            }
            rspec.format = format.clone();
            rspec.single_result = single;
            let reference = run(&mut out, "reference (no LIMIT, line by line)", &rspec, want_trace);
            if !usable(&mut out, "c07", &reference, &base_features) {
                return out;
            }
            if reference.status != Status::Ok {
                out.invalid = Some(format!("unlimited reference: {}", status_label(&reference.status)));
                return out;
            }
            Some(reference)
        };
        let aggregate = kind == "aggregate" || reference.as_ref().map(|r| r.engine.iter().any(|e| e.updated)).unwrap_or(false);
        // (record, 1-based line that produced it)
        let mut ref_rows: Vec<(String, usize)> = Vec::new();
        if aggregate {
            // unlimited batch output is the reference for aggregates
            let mut b = batch_spec(&defs, &stmt, &files, joined.as_deref());
            b.format = format.clone();
            b.single_result = single;
            let r = run(&mut out, "reference (no LIMIT, batch)", &b, want_trace);
            if r.status != Status::Ok || !r.terminated() {
                out.invalid = Some(format!("unlimited batch reference: {}", status_label(&r.status)));
                return out;
            }
            for rec in records(&r) {
                ref_rows.push((rec, all_lines.len()));
            }
        } else {
            for (i, e) in reference.as_ref().map(|r| r.engine.clone()).unwrap_or_default().iter().enumerate() {
                for p in e.printed.iter().filter(|p| !p.is_empty()) {
                    ref_rows.push((p.clone(), i + 1));
                }
            }
        }
        let rows = ref_rows.len();
        let only_n = case.get("only_n").and_then(|x| x.as_u64()).map(|x| x as usize);
        let mut ns: Vec<usize> = match only_n {
            Some(n) => vec![n],
            None => {
                if rows + 2 <= 14 {
                    (0..=rows + 2).collect()
                } else {
                    let mut v: Vec<usize> = (0..=6).collect();
                    v.extend([rows / 2, rows - 1, rows, rows + 1, rows + 2]);
                    v.sort();
                    v.dedup();
                    v
                }
            }
        };

        if only_n.is_none() && jbool(case, "huge_n") {
            ns.push(1_000_000_000_000);
            ns.push(9_223_372_036_854_775_807);
        }
        for n in ns {
            let lstmt = match [" WHERE ", " GROUP BY ", " HAVING "].iter().filter_map(|c| stmt.find(c)).min() {
                Some(at) if jbool(case, "limit_first") => format!("{} LIMIT {}{}", &stmt[..at], n, &stmt[at..]),
                _ => format!("{} LIMIT {}", stmt, n),
            };
            let expected: Vec<String> = ref_rows.iter().take(n).map(|(r, _)| r.clone()).collect();
            let l_n: usize = if aggregate {
                all_lines.len()
            } else if n == 0 {
                0
            } else if n <= rows {
                ref_rows[n - 1].1
            } else {
                all_lines.len()
            };
            let features = json!({"kind": kind, "n0": n == 0, "multi_file": files.iter().filter(|f| !f.is_empty()).count() > 1, "mode": "batch"});
            // --- batch
            let mut b = batch_spec(&defs, &lstmt, &files, joined.as_deref());
            b.format = format.clone();
            b.single_result = single;
            b.read_mode = read_mode.clone();
            b.pipe_inputs = jbool(case, "pipe");
            let label = format!("batch LIMIT {}", n);
            let res = run(&mut out, &label, &b, false);
            let mut failed = |out: &mut Outcome, class: &str, detail: String, spec: &WorldSpec, features: &J| {
                out.violate(class, format!("{}: {}", lstmt, detail), features.clone());
                if want_trace {
                    let mut o2 = Outcome::default();
                    let _ = run(&mut o2, "failing world", spec, true);
                    out.trace.extend(o2.trace);
                }
            };
            if !res.terminated() {
                failed(&mut out, "c07.no_termination", "batch run did not terminate".to_owned(), &b, &features);
                return out;
            }
            match &res.status {
                Status::Ok => {
                    let recs = records(&res);
                    if recs != expected {
                        let class = if recs.len() > expected.len() { "c07.too_many_rows" } else if recs.len() < expected.len() { "c07.too_few_rows" } else { "c07.wrong_rows" };
                        failed(&mut out, class, format!("printed {} but the first {} rows of the unlimited result are {}", show(&recs), n, show(&expected)), &b, &features);
                        return out;
                    }
                    if res.total_lines as usize != l_n {
                        failed(
                            &mut out,
                            "c07.consumed_beyond_limit",
                            format!("{} input lines consumed; the {}-th row comes from line {} (of {})", res.total_lines, n, l_n, all_lines.len()),
                            &b,
                            &features,
                        );
                        return out;
                    }
                    if !aggregate && read_mode == ReadMode::Line {
                        let n_main = files.len();
                        let fetched = res.log.iter().filter(|e| e.kind == EvKind::Read && e.file < n_main && e.ret > 0).count();
                        if fetched > l_n + 1 {
                            failed(&mut out, "c07.fetched_beyond_limit", format!("{} lines fetched from the input although the {}-th row comes from line {}", fetched, n, l_n), &b, &features);
                            return out;
                        }
                    }
                }
                other => {
                    failed(&mut out, "c07.error", format!("limited run reports {} while the unlimited one succeeds", status_label(other)), &b, &features);
                    return out;
                }
            }
            if (rows >= 2 && n < rows) || n == 0 {
                out.nontrivial.push(fnv_mix(case_hash, n as u64 * 2));
            }
            // library-style batch use: update per line, then the result table requested twice; both must be the
            // first n groups (a result call must not consume the limit)
            if aggregate && jbool(case, "api_twice") {
                let mut e = WorldSpec::new(&defs, &lstmt, Mode::EngineBatch);
                e.engine_lines = all_lines.iter().map(|l| String::from_utf8(l.clone()).unwrap()).collect();
                if let Some(j) = &joined {
                    e.extra_files.push((sqlgen::JOINED_PATH.to_owned(), j.clone()));
                }
                e.format = format.clone();
                let er = run(&mut out, &format!("engine API, result requested twice, LIMIT {}", n), &e, false);
                let efeatures = json!({"kind": kind, "n0": n == 0, "multi_file": false, "mode": "engine_api"});
                if er.terminated() && er.status == Status::Ok && er.engine.len() == 2 {
                    for (i, eo) in er.engine.iter().enumerate() {
                        let got: Vec<String> = eo.printed.iter().filter(|p| !p.is_empty()).cloned().collect();
                        // CSV prints its header once per printer: ignore it in the second table
                        if got != expected {
                            failed(&mut out, "c07.result_not_repeatable", format!("aggregate result request #{} through the engine API returned {} but the first {} groups are {}", i + 1, show(&got), n, show(&expected)), &e, &efeatures);
                            return out;
                        }
                    }
                    out.probe("engine_api_result_twice", 1);
                }
            }
            // the same run with DisplayOptions.print_result = false (benchmark configuration): nothing is
            // printed, but input consumption must obey the limit all the same
            if jbool(case, "noprint") {
                let mut q = b.clone();
                q.print_result = false;
                let qr = run(&mut out, &format!("batch LIMIT {} (print_result=false)", n), &q, false);
                let qfeatures = json!({"kind": kind, "n0": n == 0, "multi_file": files.iter().filter(|f| !f.is_empty()).count() > 1, "mode": "batch_noprint"});
                if qr.terminated() && qr.status == Status::Ok {
                    if !records(&qr).is_empty() {
                        failed(&mut out, "c07.printed_although_disabled", format!("print_result=false but {} records were printed", records(&qr).len()), &q, &qfeatures);
                        return out;
                    }
                    if qr.total_lines as usize != l_n {
                        failed(&mut out, "c07.consumed_beyond_limit", format!("print_result=false: {} input lines consumed; the {}-th row comes from line {} (of {})", qr.total_lines, n, l_n, all_lines.len()), &q, &qfeatures);
                        return out;
                    }
                } else if qr.terminated() {
                    failed(&mut out, "c07.error", format!("print_result=false run reports {}", status_label(&qr.status)), &q, &qfeatures);
                    return out;
                }
                out.probe("print_result_false_runs", 1);
            }
            // the same query run twice by one caller (same `running` flag, fresh engine and executor): the second run must
            // print the first n rows again
            if jbool(case, "twice") {
                let mut t = b.clone();
                t.repeat = 2;
                let tr = run(&mut out, &format!("batch LIMIT {} run twice", n), &t, false);
                let tfeatures = json!({"kind": kind, "n0": n == 0, "multi_file": files.iter().filter(|f| !f.is_empty()).count() > 1, "mode": "batch_twice"});
                if tr.terminated() && tr.status == Status::Ok {
                    let recs = records(&tr);
                    let mut twice = expected.clone();
                    twice.extend(expected.clone());
                    if recs != twice || tr.total_lines as usize != 2 * l_n {
                        failed(&mut out, "c07.second_run_differs", format!("run twice in one process: printed {} ({} lines consumed) but each run should print {} ({} lines)", show(&recs), tr.total_lines, show(&expected), l_n), &t, &tfeatures);
                        return out;
                    }
                } else if tr.terminated() {
                    failed(&mut out, "c07.error", format!("second run reports {}", status_label(&tr.status)), &t, &tfeatures);
                    return out;
                }
                out.probe("run_twice_in_one_process", 1);
            }
            // an engine whose limit the caller has already reached by feeding it lines itself: the executor it is
            // handed to must not consume or print anything more
            if jbool(case, "handover") && !aggregate && n >= 1 && n <= rows && joined.is_none() {
                let mut h = b.clone();
                h.prefeed_lines = all_lines[..l_n].iter().map(|l| String::from_utf8_lossy(l).into_owned()).collect();
                h.files = vec![(crate::scen::main_path(0), gen::join_lines(&all_lines[l_n..], true))];
                let hr = run(&mut out, &format!("engine that reached LIMIT {} handed to the executor", n), &h, false);
                let hfeatures = json!({"kind": kind, "n0": false, "multi_file": false, "mode": "handover"});
                if hr.terminated() && hr.status == Status::Ok {
                    if !records(&hr).is_empty() || hr.total_lines != 0 {
                        failed(&mut out, "c07.consumed_beyond_limit", format!("the engine had produced its {} rows before it was handed to the executor, which still consumed {} lines and printed {}", n, hr.total_lines, show(&records(&hr))), &h, &hfeatures);
                        return out;
                    }
                } else if hr.terminated() {
                    failed(&mut out, "c07.error", format!("handed-over run reports {}", status_label(&hr.status)), &h, &hfeatures);
                    return out;
                }
                out.probe("engine_handed_over_after_limit", 1);
            }
            out.probe("limit_zero", (n == 0) as u64);
            out.probe("limit_written_before_other_clauses", (!lstmt.ends_with(&format!(" LIMIT {}", n))) as u64);
            out.probe("limit_hit_at_file_boundary", (!aggregate && n >= 1 && n <= rows && files.len() > 1 && file_boundary(&files, l_n)) as u64);
            out.probe("limit_inside_join_fanout", (!aggregate && n >= 1 && n < rows && ref_rows[n - 1].1 == ref_rows[n].1) as u64);

            // --- follow mode
            if want_follow && !aggregate && joined.is_none() {
                let ffeatures = json!({"kind": kind, "n0": n == 0, "multi_file": false, "mode": "follow"});
                let upto = if n == 0 { 0 } else { l_n };
                let content = gen::join_lines(&all_lines[..upto], true);
                let mut f = WorldSpec::new(&defs, &lstmt, Mode::FollowExec { head: true });
                // part of the content already exists when following starts with --head (possibly all of it)
                let init_cut = match case.get("finit").and_then(|x| x.as_u64()) {
                    Some(pct) => (content.len() as u64 * pct.min(100) / 100) as usize,
                    None => 0,
                };
                f.files.push((FOLLOW_PATH.to_owned(), content[..init_cut].to_vec()));
                f.appends = gen::cut_chunks(&content[init_cut..], &jusizes(case, "fcuts"));
                out.probe("follow_limit_reached_in_preexisting_content", (init_cut == content.len() && n >= 1 && n <= rows) as u64);
                f.steps = steps_from_json(case, "fsteps");
                f.read_mode = read_mode.clone();
                f.end_after_idle = Some(64);
                f.format = format.clone();
                f.single_result = single;
                f.event_budget = 4000 + 4 * content.len();
                let label = format!("follow LIMIT {}", n);
                let res = run(&mut out, &label, &f, false);
                if !res.terminated() {
                    failed(&mut out, "c07.no_termination", "follower did not terminate".to_owned(), &f, &ffeatures);
                    return out;
                }
                match &res.status {
                    Status::Ok => {
                        let recs = stdout_lines(&res);
                        if recs != expected {
                            let class = if recs.len() > expected.len() { "c07.too_many_rows" } else if recs.len() < expected.len() { "c07.too_few_rows" } else { "c07.wrong_rows" };
                            failed(&mut out, class, format!("follow mode printed {} but the first {} rows are {}", show(&recs), n, show(&expected)), &f, &ffeatures);
                            return out;
                        }
                        if n <= rows && res.terminating_eio {
                            failed(
                                &mut out,
                                "c07.follow_waits_for_another_line",
                                format!("the {}-th row was printed but the follower kept polling for 64 EOF reads (it only stopped because the simulation ended the run)", n),
                                &f,
                                &ffeatures,
                            );
                            return out;
                        }
                    }
                    other => {
                        failed(&mut out, "c07.error", format!("follow run reports {}", status_label(other)), &f, &ffeatures);
                        return out;
                    }
                }
                if (rows >= 2 && n < rows) || n == 0 {
                    out.nontrivial.push(fnv_mix(case_hash, n as u64 * 2 + 1));
                }
                out.probe("follow_runs", 1);
            }
        }
        out.probe(&format!("kind_{}", kind), 1);
        out.probe("multi_file", (files.iter().filter(|f| !f.is_empty()).count() > 1) as u64);
        out.probe("large_more_than_1024_rows_or_groups", (rows > 1024) as u64);
        out.probe("large_more_than_16_rows", (rows > 16) as u64);
        out.probe("inputs_are_pipes", jbool(case, "pipe") as u64);
        out.probe("file_without_final_newline", files.iter().any(|f| !f.is_empty() && f.last() != Some(&b'\n')) as u64);
        out.probe("filter_on_joined_column", (stmt.contains("WHERE u.") || stmt.contains("WHERE w ")) as u64);
        out
    }
}

/// line `l` (1-based, counted over all files) is the last line of a file that is followed by a non-empty file
fn file_boundary(files: &[Vec<u8>], l: usize) -> bool {
    let mut acc = 0;
    for (i, f) in files.iter().enumerate() {
        acc += model_lines(f).len();
        if acc == l {
            return files[i + 1..].iter().any(|g| !g.is_empty());
        }
    }
    false
}
