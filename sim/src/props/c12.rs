//! C12 — every line of every input file reaches the query exactly once, in order.

use serde_json::{json, Value as J};

use crate::gen::{self, Alphabet};
use crate::prop::{Outcome, Property};
use crate::rng::Rng;
use crate::scen::*;
use crate::seam::{Fault, Step};
use crate::util::*;
use crate::world::Status;

pub struct C12;

thread_local! {
    /// joined file of the "outer" kind for the case being checked (kept out of the many call sites of `execute`)
    static OUTER_JOINED: std::cell::RefCell<Vec<u8>> = const { std::cell::RefCell::new(Vec::new()) };
    static PIPE_INPUTS: std::cell::Cell<bool> = const { std::cell::Cell::new(false) };
    /// the engine given to FileExecutor has loaded its joined table once already (the joined file is then read twice)
    static PRELOAD_JOIN: std::cell::Cell<bool> = const { std::cell::Cell::new(false) };
    static LIMIT: std::cell::Cell<Option<usize>> = const { std::cell::Cell::new(None) };
    static AGAIN: std::cell::Cell<Option<usize>> = const { std::cell::Cell::new(None) };
}

const DEFS: &str = "CREATE TABLE raw(line = '(.*)', line[1] => x TEXT); CREATE TABLE j(line = '(.*)', line[1] => y TEXT); CREATE TABLE sp(line = split ';;;', line[1] => first TEXT, line[2] => second TEXT);";

fn stmt_for(kind: &str) -> &'static str {
    match kind {
        // a table made of split patterns only: every line is a row, with or without the separator in it
        "split" => "SELECT input FROM sp",
        "count" => "SELECT COUNT(*) FROM raw",
        // an aggregate that shows the order in which the lines arrived
        "agg_order" => "SELECT ARRAY_AGG(x) AS a FROM raw",
        // DISTINCT over the whole line, on a table whose columns do not capture the whole line
        "distinct_input" => "SELECT DISTINCT input FROM sp",
        "join" => "SELECT j.y FROM raw INNER JOIN j::'/simfs/joined.log' ON raw.x = j.y",
        "outer" => "SELECT raw.x FROM raw OUTER JOIN j::'/simfs/joined.log' ON raw.x = j.y",
        _ => "SELECT input FROM raw",
    }
}

/// model lines of all files, CR policy neutralised
fn model(files: &[Vec<u8>]) -> Vec<Vec<u8>> {
    let mut out = Vec::new();
    for f in files {
        for l in model_lines(f) {
            out.push(strip_cr(&l).to_vec());
        }
    }
    out
}

fn quoted_values(recs: &[String]) -> Option<Vec<Vec<u8>>> {
    let mut out = Vec::new();
    for r in recs {
        let body = match r.find(": ") {
            Some(p) if !r.starts_with('\'') => &r[p + 2..],
            _ => r.as_str(),
        };
        let b = body.as_bytes();
        if b.len() >= 2 && b[0] == b'\'' && b[b.len() - 1] == b'\'' {
            out.push(strip_cr(&b[1..b.len() - 1]).to_vec());
        } else {
            return None;
        }
    }
    Some(out)
}

fn count_value(recs: &[String]) -> Option<u64> {
    if recs.len() != 1 {
        return None;
    }
    recs[0].rsplit(": ").next()?.trim().parse::<u64>().ok()
}

/// For the join kind: the main file (distinct values, first occurrence order) and the expected output.
fn join_plan(joined_model: &[Vec<u8>]) -> (Vec<u8>, Vec<Vec<u8>>) {
    let mut distinct: Vec<Vec<u8>> = Vec::new();
    for l in joined_model {
        if !distinct.contains(l) && std::str::from_utf8(l).is_ok() {
            distinct.push(l.clone());
        }
    }
    let mut expected = Vec::new();
    for v in &distinct {
        for l in joined_model {
            if l == v {
                expected.push(v.clone());
            }
        }
    }
    let main = gen::join_lines(&distinct, true);
    (main, expected)
}

/// every element of `a` appears in `b`, in order, each element of `b` used at most once
fn is_subsequence(a: &[Vec<u8>], b: &[Vec<u8>]) -> bool {
    let mut j = 0;
    for x in a {
        while j < b.len() && b[j] != *x {
            j += 1;
        }
        if j == b.len() {
            return false;
        }
        j += 1;
    }
    true
}

fn is_prefix(a: &[Vec<u8>], b: &[Vec<u8>]) -> bool {
    a.len() <= b.len() && a.iter().zip(b.iter()).all(|(x, y)| x == y)
}

fn lossy(items: &[Vec<u8>]) -> String {
    let v: Vec<String> = items.iter().take(10).map(|i| String::from_utf8_lossy(i).chars().take(40).collect()).collect();
    format!("{:?}{}", v, if items.len() > 10 { format!(" (+{})", items.len() - 10) } else { String::new() })
}

struct Run {
    status: Status,
    values: Option<Vec<Vec<u8>>>,
    count: Option<u64>,
    recs: Vec<String>,
    total_lines: u64,
}

impl C12 {
    #[allow(clippy::too_many_arguments)]
    fn execute(&self, out: &mut Outcome, label: &str, kind: &str, files: &[Vec<u8>], steps: &[Step], read_mode: &crate::seam::ReadMode, want_trace: bool, features: &J) -> Option<Run> {
        let pipe = PIPE_INPUTS.with(|p| p.get());
        let limit = LIMIT.with(|l| l.get());
        let mut spec = if let (Some(n), "input") = (limit, kind) {
            let mut s = batch_spec(DEFS, &format!("SELECT input FROM raw LIMIT {}", n), files, None);
            s.steps = steps.to_vec();
            s.read_mode = read_mode.clone();
            s
        } else if kind == "outer" {
            let joined = OUTER_JOINED.with(|j| j.borrow().clone());
            let mut s = batch_spec(DEFS, stmt_for(kind), files, Some(&joined));
            s.steps = steps.to_vec();
            s.read_mode = read_mode.clone();
            s
        } else if kind == "join" {
            let joined_model = model(&files[..1]);
            let (main, _) = join_plan(&joined_model);
            let mut s = batch_spec(DEFS, stmt_for(kind), &[main], Some(&files[0]));
            s.steps = steps.to_vec();
            s.read_mode = read_mode.clone();
            s
        } else {
            let mut s = batch_spec(DEFS, stmt_for(kind), files, None);
            s.steps = steps.to_vec();
            s.read_mode = read_mode.clone();
            s
        };
        spec.pipe_inputs = pipe;
        spec.preload_join = (kind == "join" || kind == "outer") && PRELOAD_JOIN.with(|p| p.get());
        if let Some(i) = AGAIN.with(|a| a.get()) {
            if kind == "input" || kind == "count" {
                if let Some(entry) = spec.files.get(i).cloned() {
                    spec.files.push(entry);
                }
            }
        }
        let res = run(out, label, &spec, want_trace);
        if !usable(out, "c12", &res, features) {
            return None;
        }
        if let Status::Panic(msg) = &res.status {
            out.violate("c12.panic", msg.clone(), features.clone());
            return None;
        }
        let recs = records(&res);
        Some(Run { status: res.status.clone(), values: quoted_values(&recs), count: count_value(&recs), recs, total_lines: res.total_lines })
    }
}

impl Property for C12 {
    fn id(&self) -> &'static str {
        "C12"
    }

    fn budget(&self) -> (u64, u64) {
        (100_000, 3_000_000)
    }

    fn level(&self) -> &'static str {
        "fault_enumeration"
    }

    fn rule(&self) -> &'static str {
        "case = (1..4 files of generated byte content incl. CRLF, empty lines, lines over several 8 KiB refills, missing final newline, empty files; statement SELECT input / COUNT(*) / join whose joined file is the file under test (rows and, through [DISTINCT] COUNT(*) over the join, their number; for a third of the cases on an engine that has loaded its joined table once before); read script with short reads and EINTR; read granularity). Variants: transparent (faults must be invisible), concat (k newline-terminated files vs their concatenation), badbyte (the undecodable line's position is swept over EVERY line of every file of the case, for the OUTER JOIN kind over every line of its joined file: fault enumeration per scenario), eio (EIO swept over every read of the run). Non-trivial iff >=2 lines and (>=2 files or >=1 fault fired inside the data); distinct by schedule signature + content hash."
    }

    fn assumptions(&self) -> Vec<String> {
        vec![
            "reference model: concatenate lines(file_i), lines = split at '\\n', last segment kept if non-empty; one trailing '\\r' per line is ignored on both sides (CR policy not fixed by the property)".to_owned(),
            "EIO is outside the property's wording; under an injected EIO the run may fail, stop early or skip the rest of a file, but the lines it presents must be an in-order selection of the model (nothing twice, nothing foreign); fault-free/transparent and fault-injecting variants are separate cases".to_owned(),
            "src/main.rs (collecting file names) is not executed; files are opened in command-line order by the harness driver".to_owned(),
            "bounds: <=4 files x <=10 lines, one regime with a 20 KiB line".to_owned(),
        ]
    }

    fn generate(&self, rng: &mut Rng, thorough: bool) -> J {
        let _thorough = thorough;
        let variant = *rng.pick(&["transparent", "transparent", "concat", "badbyte", "badbyte", "eio"]);
        let kind = *rng.pick(&["input", "input", "input", "count", "count", "join", "join", "outer", "outer", "split", "split", "agg_order", "distinct_input"]);
        let n_files = if kind == "join" { 1 } else { rng.range(1, 4) as usize };
        // size regime: a file with thousands of lines (beyond any per-batch constant such as 1024 / 4096)
        let many_lines = (kind == "input" || kind == "count") && rng.chance(if _thorough { 20 } else { 4 }, 1000);
        if many_lines {
            let n = rng.range(4100, if _thorough { 20000 } else { 9000 }) as usize;
            let lines: Vec<Vec<u8>> = (0..n).map(|i| format!("entry {}", i).into_bytes()).collect();
            let mut files = vec![gen::join_lines(&lines, !rng.chance(1, 4))];
            if rng.chance(1, 3) {
                files.push(b"tail a\ntail b\n".to_vec());
            }
            return json!({
                "prop": "C12",
                "variant": "transparent",
                "kind": kind,
                "files": enc_list(&files),
                "steps": [],
                "read_mode": "bulk",
                "bad_style": 0,
                "outer_joined": "",
            });
        }
        let alphabet = *rng.pick(&[Alphabet::Ascii, Alphabet::Utf8, Alphabet::CrBlank, Alphabet::Odd]);
        let huge_case = rng.chance(1, 25);
        // one line far beyond every buffer (64 KiB .. 1 MiB) in a file of otherwise ordinary lines
        let giant_case = kind != "join" && kind != "outer" && rng.chance(if thorough { 6 } else { 2 }, 1000);
        let mut files = Vec::new();
        for _ in 0..n_files {
            let n_lines = if rng.chance(1, 8) { 0 } else { rng.range(1, 10) as usize };
            let mut lines: Vec<Vec<u8>> = Vec::new();
            for _ in 0..n_lines {
                let mut line = if kind == "distinct_input" && rng.chance(2, 3) {
                    // equal in the two extracted fields, different beyond them; repeated lines
                    rng.pick(&[&b"p;;;q;;;1"[..], b"p;;;q;;;2", b"p;;;q", b"p;;;q;;;1", b"x", b"x;;;y", b"x;;;y;;;", b""]).to_vec()
                } else if kind == "join" || (kind == "outer" && rng.chance(1, 2)) {
                    // few distinct values so that multiplicities exceed one
                    rng.pick(&[&b"a"[..], b"b", b"cc", b"", "é".as_bytes(), b"a b"]).to_vec()
                } else if huge_case && rng.chance(1, 4) {
                    let mut l = Vec::new();
                    let target = rng.range(8190, 20500) as usize;
                    while l.len() < target {
                        l.push(b'a' + (l.len() % 26) as u8);
                    }
                    l
                } else {
                    let mut l = gen::gen_line(rng, alphabet, 16, false);
                    l.retain(|b| *b != b'\r');
                    l
                };
                if kind != "join" && kind != "outer" && kind != "agg_order" && kind != "distinct_input" && rng.chance(1, 6) {
                    line.push(b'\r'); // CRLF line end
                }
                lines.push(line);
            }
            if giant_case && rng.chance(1, 2) {
                let pos = rng.below(lines.len() + 1);
                let giant_len = *rng.pick(&[66_000usize, 131_080, 300_000, 1_050_000]);
                lines.insert(pos, gen::gen_giant_line(rng, giant_len));
            }
            let final_nl = variant == "concat" || !rng.chance(1, 3);
            if kind != "join" && kind != "outer" && !lines.is_empty() && rng.chance(1, 15) {
                // text that happens to begin like a well-known binary / archive format
                let magic: &[u8] = *rng.pick(&[&b"BZh91AY&SY"[..], b"PK\x03\x04", b"\x7fELF", b"%PDF-1.4", b"#!/bin/sh", b"<?xml version", b"ustar", b"SQLite format 3", b"GIF89a", b"Rar!"]);
                let mut first = magic.to_vec();
                first.extend_from_slice(&lines[0]);
                lines[0] = first;
            }
            if kind != "join" && !lines.is_empty() && rng.chance(1, 12) {
                // a file that starts with a byte order mark (e.g. written by a Windows tool)
                let mut first = "\u{FEFF}".as_bytes().to_vec();
                first.extend_from_slice(&lines[0]);
                lines[0] = first;
            }
            files.push(gen::join_lines(&lines, final_nl));
        }
        let cfg = gen::gen_sched_cfg(rng);
        let n_steps = if variant == "transparent" || rng.chance(1, 2) { rng.range(0, 30) as usize } else { 0 };
        let mut steps = Vec::new();
        for _ in 0..n_steps {
            let fault = if rng.below(100) < cfg.eintr_pct {
                Fault::Eintr
            } else if rng.below(100) < cfg.short_pct.max(20) {
                Fault::Short(rng.range(1, 7) as usize)
            } else {
                Fault::None
            };
            steps.push(Step { land: 0, fault });
        }
        json!({
            "prop": "C12",
            "variant": variant,
            "kind": kind,
            "files": enc_list(&files),
            "steps": steps_to_json(&steps),
            "read_mode": read_mode_to_json(&gen::gen_read_mode(rng)),
            "bad_style": rng.below(3),
            // the inputs are pipes / FIFOs (what `--stdin` gives): no size in the metadata, not seekable
            "pipe": rng.chance(1, 8),
            "preload_join": rng.chance(1, 3),
            // join kind: the joined lines are also counted through an aggregate over the join (0 no, 1 COUNT, 2 DISTINCT COUNT)
            "join_count": if kind == "join" { rng.below(3) } else { 0 },
            // input kind only: SELECT input ... LIMIT n (the lines after the n-th are legitimately not presented)
            "limit": if kind == "input" && rng.chance(1, 4) { json!(rng.range(1, 12)) } else { J::Null },
            // one of the files is named a second time on the command line (f g f): its lines are presented again
            "again": if (kind == "input" || kind == "count") && rng.chance(1, 10) { json!(rng.below(n_files)) } else { J::Null },
            // outer kind: the joined file may be empty, hold only non-matching text, or hold partners for some lines
            "outer_joined": enc(["", "", "zzz-no-partner\n", "a\n", "a\nb\na\n"][rng.below(5)].as_bytes()),
        })
    }

    fn shrink(&self, case: &J) -> Vec<J> {
        use crate::shrink::*;
        let mut out = Vec::new();
        bytes_array_field(case, "files", &mut out);
        bytes_field(case, "outer_joined", &mut out);
        bool_field(case, "pipe", false, &mut out);
        bool_field(case, "preload_join", false, &mut out);
        num_field(case, "join_count", 0, &mut out);
        set_field(case, "limit", J::Null, &mut out);
        set_field(case, "again", J::Null, &mut out);
        steps_field(case, "steps", &mut out);
        set_field(case, "read_mode", json!("bulk"), &mut out);
        set_field(case, "kind", json!("input"), &mut out);
        num_field(case, "bad_style", 0, &mut out);
        out
    }

    fn check(&self, case: &J, want_trace: bool) -> Outcome {
        let mut out = Outcome::default();
        let kind = jstr(case, "kind");
        // the outer kind is about presentation of the main lines only: no bad-byte / EIO sweeps there
        let variant = if (kind == "agg_order" || kind == "distinct_input") && jstr(case, "variant") != "concat" {
            "transparent".to_owned()
        } else if kind == "outer" && jstr(case, "variant") != "concat" && jstr(case, "variant") != "badbyte" { "transparent".to_owned() } else { jstr(case, "variant") };
        let outer_joined = jbytes(case, "outer_joined");
        OUTER_JOINED.with(|j| *j.borrow_mut() = outer_joined.clone());
        PIPE_INPUTS.with(|p| p.set(jbool(case, "pipe")));
        PRELOAD_JOIN.with(|p| p.set(jbool(case, "preload_join")));
        let limit: Option<usize> = if kind == "input" { case.get("limit").and_then(|x| x.as_u64()).map(|x| x as usize) } else { None };
        LIMIT.with(|l| l.set(limit));
        out.probe("with_limit", limit.is_some() as u64);
        out.probe("inputs_are_pipes", jbool(case, "pipe") as u64);
        out.probe("joined_table_loaded_before_the_run_too", (jbool(case, "preload_join") && (kind == "join" || kind == "outer")) as u64);
        let mut files = jbytes_list(case, "files");
        if files.is_empty() {
            out.invalid = Some("no files".to_owned());
            return out;
        }
        if kind == "join" {
            files.truncate(1);
        }
        let steps = steps_from_json(case, "steps");
        let read_mode = read_mode_from_json(case, "read_mode");
        let again: Option<usize> = if (kind == "input" || kind == "count") && variant == "transparent" { case.get("again").and_then(|x| x.as_u64()).map(|x| x as usize).filter(|i| *i < files.len()) } else { None };
        AGAIN.with(|a| a.set(again));
        out.probe("same_file_named_twice", again.is_some() as u64);
        let features = json!({"variant": variant, "kind": kind, "multi_file": files.len() > 1});
        // the generated content itself must be decodable (bad bytes are injected by the variant)
        if files.iter().any(|f| std::str::from_utf8(f).is_err()) {
            out.invalid = Some("base content is not UTF-8".to_owned());
            return out;
        }
        if kind == "outer" && (files.iter().any(|f| f.contains(&b'\r')) || outer_joined.contains(&b'\r') || std::str::from_utf8(&outer_joined).is_err()) {
            out.invalid = Some("CR in a join key".to_owned());
            return out;
        }
        if kind == "join" && files[0].contains(&b'\r') {
            // the join key would depend on the CR policy, which the property leaves open
            out.invalid = Some("CR in a join key".to_owned());
            return out;
        }
        let m = match again {
            Some(i) => {
                let mut all = files.clone();
                all.push(files[i].clone());
                model(&all)
            }
            None => model(&files),
        };
        let n = m.len();
        let content_hash = fnv(serde_json::to_string(&case["files"]).unwrap().as_bytes());
        let expected_values: Vec<Vec<u8>> = if kind == "join" {
            join_plan(&m).1
        } else if kind == "outer" {
            // every main line is presented: once per partner, or once with NULL joined columns
            let partners = model(&[outer_joined.clone()]);
            let mut e = Vec::new();
            for l in &m {
                let c = partners.iter().filter(|p| *p == l).count().max(1);
                for _ in 0..c {
                    e.push(l.clone());
                }
            }
            e
        } else if kind == "distinct_input" {
            let mut e: Vec<Vec<u8>> = Vec::new();
            for l in &m {
                if !e.contains(l) {
                    e.push(l.clone());
                }
            }
            e
        } else {
            m.clone()
        };
        let expected_values: Vec<Vec<u8>> = match limit {
            Some(l) => expected_values.into_iter().take(l).collect(),
            None => expected_values,
        };
        let expected_total: u64 = if kind == "join" { model_lines(&join_plan(&m).0).len() as u64 } else { limit.map(|l| l.min(n)).unwrap_or(n) as u64 };

        // --- the fault-transparent run (every variant starts with it)
        let base = match self.execute(&mut out, "base", &kind, &files, &steps, &read_mode, want_trace, &features) {
            Some(r) => r,
            None => return out,
        };
        let check_full = |out: &mut Outcome, r: &Run, what: &str| {
            if r.status != Status::Ok {
                out.violate("c12.error", format!("{}: run reported {:?} on well-formed input", what, status_label(&r.status)), features.clone());
                return;
            }
            if kind == "agg_order" {
                let want = format!("a: {{{}}}", m.iter().map(|l| format!("'{}'", String::from_utf8_lossy(l))).collect::<Vec<_>>().join(", "));
                if !(r.recs == vec![want.clone()] || (n == 0 && r.recs.is_empty())) {
                    out.violate("c12.wrong_lines", format!("{}: ARRAY_AGG shows {} but the lines in input order are {}", what, show(&r.recs), want), features.clone());
                }
            } else if kind == "count" {
                let expect = if n == 0 { None } else { Some(n as u64) };
                if r.count != expect && !(n == 0 && r.recs.is_empty()) {
                    out.violate("c12.wrong_lines", format!("{}: COUNT(*) printed {:?}, the files hold {} lines", what, r.recs, n), features.clone());
                }
            } else {
                match &r.values {
                    Some(v) if *v == expected_values => {}
                    Some(v) => {
                        let class = if v.len() < expected_values.len() && is_prefix(v, &expected_values) { "c12.lines_missing" } else { "c12.wrong_lines" };
                        out.violate(class, format!("{}: query saw {} expected {}", what, lossy(v), lossy(&expected_values)), features.clone());
                    }
                    None => out.violate("c12.wrong_lines", format!("{}: unexpected record shape {}", what, show(&r.recs)), features.clone()),
                }
            }
            if out.violation.is_none() && r.total_lines != expected_total {
                out.violate("c12.statistics", format!("{}: statistics.total_lines = {}, the input has {} lines", what, r.total_lines, expected_total), features.clone());
            }
        };
        check_full(&mut out, &base, "short reads/EINTR must be transparent");
        if out.violation.is_some() {
            return out;
        }
        let join_count = jusize(case, "join_count", 0);
        if kind == "join" && join_count > 0 && n > 0 {
            // every joined line reaches an aggregate over the join exactly once as well: the main file holds each distinct
            // value once, so the join has as many rows as the joined file has lines
            let (main, _) = join_plan(&model(&files[..1]));
            let stmt = format!("SELECT {}COUNT(*) AS c FROM raw INNER JOIN j::'/simfs/joined.log' ON raw.x = j.y", if join_count == 2 { "DISTINCT " } else { "" });
            let mut spec = batch_spec(DEFS, &stmt, &[main], Some(&files[0]));
            spec.steps = steps.clone();
            spec.read_mode = read_mode.clone();
            spec.preload_join = PRELOAD_JOIN.with(|p| p.get());
            let res = run(&mut out, "aggregate over the join", &spec, false);
            if !usable(&mut out, "c12", &res, &features) {
                return out;
            }
            let recs = records(&res);
            if res.status != Status::Ok || count_value(&recs) != Some(n as u64) {
                out.violate("c12.wrong_lines", format!("{}: {} {} but the joined file holds {} lines, each with a partner", stmt, status_label(&res.status), show(&recs), n), features.clone());
                return out;
            }
            out.probe("joined_lines_counted_through_an_aggregate", 1);
        }
        let fired_inside = out.faults.get("short_read").cloned().unwrap_or(0) + out.faults.get("eintr").cloned().unwrap_or(0) > 0;
        if n >= 2 && (files.len() >= 2 || fired_inside) {
            out.nontrivial.push(fnv_mix(content_hash, fnv_mix(1, fnv(serde_json::to_string(&case["steps"]).unwrap().as_bytes()))));
        }

        match variant.as_str() {
            "concat" => {
                if files.iter().all(|f| f.is_empty() || f.last() == Some(&b'\n')) && kind != "join" {
                    let whole: Vec<u8> = files.concat();
                    if let Some(r) = self.execute(&mut out, "concat", &kind, &[whole], &steps, &read_mode, want_trace, &features) {
                        if r.recs != base.recs || status_label(&r.status) != status_label(&base.status) {
                            out.violate("c12.concat", format!("{} files print {} but their concatenation prints {}", files.len(), show(&base.recs), show(&r.recs)), features.clone());
                        }
                        out.probe("concat_compared", 1);
                        if files.len() >= 2 && n >= 2 {
                            out.nontrivial.push(fnv_mix(content_hash, 2));
                        }
                    }
                }
            }
            "badbyte" => {
                // sweep the undecodable line over every line of every file
                let style = jusize(case, "bad_style", 0);
                let mut global = 0usize;
                for (fi, f) in files.iter().enumerate() {
                    if kind == "outer" {
                        // for the OUTER JOIN kind the sweep is over its joined file (below)
                        break;
                    }
                    let lines = model_lines(f);
                    let final_nl = f.last() == Some(&b'\n');
                    for li in 0..lines.len() {
                        let mut bad_lines = lines.clone();
                        match style {
                            0 => bad_lines[li] = vec![0xFF],
                            1 => bad_lines[li].insert(0, 0xC3),
                            _ => {
                                let p = bad_lines[li].len() / 2;
                                bad_lines[li].insert(p, 0x80);
                            }
                        }
                        // keep a trailing CR where the original had one
                        let mut fs = files.clone();
                        fs[fi] = gen::join_lines(&bad_lines, final_nl);
                        let b = global + li;
                        let label = format!("badbyte file#{} line#{}", fi, li);
                        let r = match self.execute(&mut out, &label, &kind, &fs, &steps, &read_mode, false, &features) {
                            Some(r) => r,
                            None => return out,
                        };
                        out.fault("bad_byte", 1);
                        let later_exist = b + 1 < n;
                        match (&r.status, kind.as_str()) {
                            (Status::Ok, "count") => {
                                let c = r.count.unwrap_or(0) as usize;
                                if c != n && c != n - 1 {
                                    out.violate(
                                        "c12.dropped_after_bad_line",
                                        format!("undecodable line #{} (file #{}): run returned Ok and counted {} of {} lines - later well-formed lines were dropped silently", b, fi, c, n),
                                        features.clone(),
                                    );
                                }
                            }
                            (Status::Ok, _) => {
                                // expected: the model without the bad line (or with it in some lossy form)
                                let values = r.values.clone().unwrap_or_default();
                                let (exp_without, exp_pos): (Vec<Vec<u8>>, usize) = if kind == "join" {
                                    let mut m2 = m.clone();
                                    m2.remove(b);
                                    // main file is built from the bad file's decodable distinct values
                                    let jm = model(&fs[..1]);
                                    let (_, _exp) = join_plan(&jm);
                                    let mut distinct: Vec<Vec<u8>> = Vec::new();
                                    for l in &jm {
                                        if !distinct.contains(l) && std::str::from_utf8(l).is_ok() {
                                            distinct.push(l.clone());
                                        }
                                    }
                                    let mut e = Vec::new();
                                    for v in &distinct {
                                        for l in &m2 {
                                            if l == v {
                                                e.push(v.clone());
                                            }
                                        }
                                    }
                                    (e, usize::MAX)
                                } else {
                                    let mut m2 = m.clone();
                                    m2.remove(b);
                                    if let Some(l) = limit {
                                        // with a LIMIT the run may legitimately stop before it ever meets the bad line
                                        m2.truncate(l);
                                    }
                                    (m2, if limit.is_some() { usize::MAX } else { b })
                                };
                                let ok_without = values == exp_without;
                                let ok_with = exp_pos != usize::MAX && values.len() == exp_without.len() + 1 && values[..exp_pos] == exp_without[..exp_pos] && values[exp_pos + 1..] == exp_without[exp_pos..];
                                if !ok_without && !ok_with {
                                    let class = if values.len() < exp_without.len() { "c12.dropped_after_bad_line" } else { "c12.wrong_lines" };
                                    out.violate(
                                        class,
                                        format!("undecodable line #{} (file #{}): run returned Ok, query saw {} but the well-formed lines are {}", b, fi, lossy(&values), lossy(&exp_without)),
                                        features.clone(),
                                    );
                                }
                            }
                            (Status::Err(_), "count") => {}
                            (Status::Err(_), _) => {
                                let values = r.values.clone().unwrap_or_default();
                                let lim: Vec<Vec<u8>> = if kind == "join" { expected_values.clone() } else { m[..b].iter().take(limit.unwrap_or(usize::MAX)).cloned().collect() };
                                if !is_prefix(&values, &lim) {
                                    out.violate("c12.wrong_lines", format!("undecodable line #{}: error reported but the records before it {} are not a prefix of the model {}", b, lossy(&values), lossy(&lim)), features.clone());
                                }
                            }
                            _ => {}
                        }
                        if later_exist {
                            out.probe("bad_byte_with_later_lines", 1);
                            out.nontrivial.push(fnv_mix(content_hash, 1000 + b as u64 * 4 + style as u64));
                        }
                        if out.violation.is_some() {
                            if want_trace {
                                // re-run the failing world with the trace on
                                let mut o2 = Outcome::default();
                                let _ = self.execute(&mut o2, &label, &kind, &fs, &steps, &read_mode, true, &features);
                                out.trace.extend(o2.trace);
                            }
                            return out;
                        }
                    }
                    global += lines.len();
                }
                if kind == "outer" {
                    // the same sweep over the joined file of the OUTER JOIN: an undecodable joined line is either reported
                    // or it alone is missing; the other joined lines keep finding their partners
                    let jlines = model_lines(&outer_joined);
                    let j_final_nl = outer_joined.last() == Some(&b'\n');
                    for li in 0..jlines.len() {
                        let mut bad_lines = jlines.clone();
                        bad_lines[li] = vec![0xFF, b'z'];
                        OUTER_JOINED.with(|j| *j.borrow_mut() = gen::join_lines(&bad_lines, j_final_nl));
                        let label = format!("badbyte joined line#{}", li);
                        let r = self.execute(&mut out, &label, &kind, &files, &steps, &read_mode, false, &features);
                        OUTER_JOINED.with(|j| *j.borrow_mut() = outer_joined.clone());
                        let r = match r {
                            Some(r) => r,
                            None => return out,
                        };
                        out.fault("bad_byte", 1);
                        let mut partners = model(&[outer_joined.clone()]);
                        if li < partners.len() {
                            partners.remove(li);
                        }
                        let mut expect: Vec<Vec<u8>> = Vec::new();
                        for l in &m {
                            let c = partners.iter().filter(|p| *p == l).count().max(1);
                            for _ in 0..c {
                                expect.push(l.clone());
                            }
                        }
                        let values = r.values.clone().unwrap_or_default();
                        match &r.status {
                            Status::Ok => {
                                if values != expect {
                                    out.violate(
                                        "c12.dropped_after_bad_line",
                                        format!("undecodable line #{} of the joined file: run returned Ok, query saw {} but with the well-formed joined lines it is {}", li, lossy(&values), lossy(&expect)),
                                        features.clone(),
                                    );
                                }
                            }
                            Status::Err(_) => {
                                if !values.is_empty() {
                                    out.violate("c12.wrong_lines", format!("undecodable line #{} of the joined file: error reported after records {} were printed", li, lossy(&values)), features.clone());
                                }
                            }
                            _ => {}
                        }
                        out.probe("bad_byte_in_outer_joined_file", 1);
                        if out.violation.is_some() {
                            return out;
                        }
                    }
                }
            }
            "eio" => {
                // EIO swept over every read of the base run (read index = position in the script)
                let reads = base_reads(&out);
                let max_sweep = reads.min(40);
                for k in 0..max_sweep {
                    let mut st: Vec<Step> = steps.clone();
                    while st.len() <= k {
                        st.push(Step { land: 0, fault: Fault::None });
                    }
                    // steps are consumed by open/seek/read events alike; index by event position
                    st[k] = Step { land: 0, fault: Fault::Eio };
                    let label = format!("eio at script step {}", k);
                    let r = match self.execute(&mut out, &label, &kind, &files, &st, &read_mode, false, &features) {
                        Some(r) => r,
                        None => return out,
                    };
                    if kind == "count" {
                        if let (Status::Ok, Some(c)) = (&r.status, r.count) {
                            if c as usize > n {
                                out.violate("c12.wrong_lines", format!("EIO at step {}: counted {} lines of {}", k, c, n), features.clone());
                            }
                        }
                    } else if let Some(values) = &r.values {
                        // the property does not speak about I/O errors: what is still demanded is that no line
                        // is presented twice, out of order, or invented
                        if !is_subsequence(values, &expected_values) {
                            out.violate("c12.duplicate_or_foreign_after_eio", format!("EIO at step {}: query saw {} which is not an in-order selection of {}", k, lossy(values), lossy(&expected_values)), features.clone());
                        }
                    }
                    if out.violation.is_some() {
                        if want_trace {
                            let mut o2 = Outcome::default();
                            let _ = self.execute(&mut o2, &label, &kind, &files, &st, &read_mode, true, &features);
                            out.trace.extend(o2.trace);
                        }
                        return out;
                    }
                    if n >= 2 {
                        out.nontrivial.push(fnv_mix(content_hash, 5000 + k as u64));
                    }
                }
            }
            _ => {}
        }
        out.probe("multi_file", (files.len() > 1) as u64);
        out.probe("no_final_newline", files.iter().any(|f| !f.is_empty() && f.last() != Some(&b'\n')) as u64);
        out.probe("empty_file", files.iter().any(|f| f.is_empty()) as u64);
        out.probe("crlf", files.iter().any(|f| f.windows(2).any(|w| w == b"\r\n")) as u64);
        out.probe("file_starts_like_a_binary_format", files.iter().any(|f| f.starts_with(b"BZh") || f.starts_with(b"PK") || f.starts_with(b"\x7fELF") || f.starts_with(b"%PDF") || f.starts_with(b"GIF8") || f.starts_with(b"Rar!")) as u64);
        out.probe("file_starts_with_bom", files.iter().any(|f| f.starts_with("\u{FEFF}".as_bytes())) as u64);
        out.probe("odd_characters", files.iter().any(|f| f.iter().any(|b| *b == 0 || *b == 0x0b || *b == 0x0c) || f.windows(3).any(|w| w == "\u{2028}".as_bytes())) as u64);
        out.probe("more_than_4096_lines_in_a_file", files.iter().any(|f| f.iter().filter(|b| **b == b'\n').count() > 4096) as u64);
        out.probe("outer_join_with_empty_joined_table", (kind == "outer" && model(&[outer_joined.clone()]).is_empty()) as u64);
        out.probe("line_over_64k", files.iter().any(|f| f.split(|b| *b == b'\n').any(|l| l.len() > 65536)) as u64);
        out.probe("line_over_8k", files.iter().any(|f| f.split(|b| *b == b'\n').any(|l| l.len() > 8192)) as u64);
        out.probe(&format!("kind_{}", kind), 1);
        out.probe(&format!("variant_{}", variant), 1);
        out
    }
}

/// number of script-consuming events (open/seek/read) of the base run, from the accumulated counters
fn base_reads(out: &Outcome) -> usize {
    // events of the first world only: conservative upper bound is fine (extra steps are never reached)
    out.events as usize
}
