//! C15 — order-insensitive aggregates ignore line order and how the input is split.
//!
//! Fault kind `reorder`: the lines of several producers reach the log in any merge order (every
//! permutation is a legal log); `split`: the same multiset cut into two inputs.

use std::collections::BTreeMap;

use serde_json::{json, Value as J};

use crate::follow::FOLLOW_PATH;
use crate::gen;
use crate::prop::{Outcome, Property};
use crate::rng::Rng;
use crate::scen::*;
use crate::sqlgen::{self, AggCfg};
use crate::util::*;
use crate::world::{Mode, Status, WorldSpec};

use super::c06::{cfg_from_json, cfg_to_json, spec_from_json, spec_to_json};

pub struct C15;

/// any list of indices -> a permutation of 0..n (listed valid indices first, the rest in natural order)
fn normalise_order(order: &[usize], n: usize) -> Vec<usize> {
    let mut out: Vec<usize> = Vec::new();
    for i in order {
        if *i < n && !out.contains(i) {
            out.push(*i);
        }
    }
    for i in 0..n {
        if !out.contains(&i) {
            out.push(i);
        }
    }
    out
}

/// NULL-aware combination helpers over JSON cells
fn add_cells(a: &J, b: &J) -> J {
    match (a, b) {
        (J::Null, x) | (x, J::Null) => x.clone(),
        (x, y) => {
            if let (Some(i), Some(j)) = (x.as_i64(), y.as_i64()) {
                json!(i + j)
            } else {
                json!(x.as_f64().unwrap_or(0.0) + y.as_f64().unwrap_or(0.0))
            }
        }
    }
}

fn cmp_cells(a: &J, b: &J) -> std::cmp::Ordering {
    match (a, b) {
        (J::String(x), J::String(y)) => x.cmp(y),
        _ => a.as_f64().unwrap_or(0.0).partial_cmp(&b.as_f64().unwrap_or(0.0)).unwrap_or(std::cmp::Ordering::Equal),
    }
}

fn min_cells(a: &J, b: &J) -> J {
    match (a, b) {
        (J::Null, x) | (x, J::Null) => x.clone(),
        (x, y) => if cmp_cells(x, y) == std::cmp::Ordering::Greater { y.clone() } else { x.clone() },
    }
}

fn max_cells(a: &J, b: &J) -> J {
    match (a, b) {
        (J::Null, x) | (x, J::Null) => x.clone(),
        (x, y) => if cmp_cells(x, y) == std::cmp::Ordering::Less { y.clone() } else { x.clone() },
    }
}

fn same_cell(a: &J, b: &J) -> bool {
    match (a.as_f64(), b.as_f64()) {
        (Some(x), Some(y)) => x == y,
        _ => a == b,
    }
}

/// JSON records -> map group key (rendered) -> record
fn table_by_key(recs: &[String], keys: &[String]) -> Option<BTreeMap<String, serde_json::Map<String, J>>> {
    let mut out = BTreeMap::new();
    for r in recs {
        let v: J = serde_json::from_str(r).ok()?;
        let o = v.as_object()?.clone();
        let key = keys.iter().map(|k| o.get(k).map(|x| x.to_string()).unwrap_or_default()).collect::<Vec<_>>().join("|");
        if out.insert(key, o).is_some() {
            return None; // duplicate group: not a table we can combine
        }
    }
    Some(out)
}

impl Property for C15 {
    fn id(&self) -> &'static str {
        "C15"
    }

    fn budget(&self) -> (u64, u64) {
        (45_000, 1_350_000)
    }

    fn rule(&self) -> &'static str {
        "case = (table configuration, aggregate statement over COUNT/COUNT(c)/COUNT(DISTINCT)/SUM/MIN/MAX/AVG/STDDEV/VARIANCE/PERCENTILE/BOOL_AND/BOOL_OR with GROUP BY/WHERE/HAVING, <=10 lines with INT, REAL=k/4, BOOLEAN, TEXT, TIMESTAMP arguments and NULLs in any position, <=40 arrival orders [all permutations when <=4 lines; reverse, rotations, producer merges, random otherwise], a cut point). Each order is one batch world; a subset also runs the order through FollowFileExecutor. Split law checked on COUNT(*)/SUM/MIN/MAX statements by combining R(A) and R(B) key-wise in the harness. Non-trivial iff the arrival order differs from the reference order and some group has >=2 rows; distinct by (statement, permutation, content hash)."
    }

    fn assumptions(&self) -> Vec<String> {
        vec![
            "REAL inputs are k/4 with |k| <= 2^16 so sums and sums of squares are exact in f64 (the property's restriction); NaN, infinities and -0.0 are not generated (their ordering is C16)".to_owned(),
            "groups in which the argument of COUNT(c) / PERCENTILE is NULL on every row are avoided by the generator: the engine mis-assembles the table for them regardless of order (C04 territory, not claimed); if one occurs both arrival orders fail alike, which counts as agreement".to_owned(),
            "the split law is checked on statements without HAVING, as counts/sums/min/max of the parts".to_owned(),
        ]
    }

    fn generate(&self, rng: &mut Rng, thorough: bool) -> J {
        let mut cfg = sqlgen::gen_table_cfg(rng);
        if rng.chance(1, 3) {
            // make TIMESTAMP / BOOLEAN arguments common enough
            cfg = sqlgen::TableCfg { variant: sqlgen::Variant::Capture, kmod: sqlgen::KMod::None, nmod: sqlgen::NMod::None, with_b: true, b_not_null: false, with_ts: true, order: vec!["k", "n", "r", "b", "d"] };
        }
        let mut lc = sqlgen::gen_line_cfg(rng);
        lc.bad_n_pct = 0;
        lc.n_range = *rng.pick(&[3, 10, 1000]);
        // size regime: groups with more than 16 / 32 values and distinct values, recurring values
        let large = rng.chance(if thorough { 20 } else { 6 }, 100);
        if large {
            lc.keys = rng.range(1, 2) as usize;
            lc.n_range = *rng.pick(&[12, 30, 1000]);
            lc.null_pct = *rng.pick(&[0, 10]);
        }
        // huge regime: one group with thousands of values (beyond any internal batch / threshold constant)
        let huge = rng.chance(if thorough { 30 } else { 4 }, 1000);
        if huge {
            lc.keys = 1;
            lc.n_range = 1_000_000;
            lc.null_pct = 0;
        }
        // REAL values that are integers beyond 2^53 (still exactly representable, as are all their sums here)
        let big_real = !huge && rng.chance(1, 12);
        // magnitude regime: INT values near 1e9 (squares sum beyond 2^53 but within i64) mixed with small ones
        let big_n = rng.chance(1, 8);
        let split_law = rng.chance(1, 3);
        let bool_only = !huge && !big_real && rng.chance(1, 12);
        // REAL values that are not numbers under the aggregates that only count: every NaN is its own value,
        // whenever it arrives (split tables only: the other patterns admit digits only)
        let nan_real = !huge && !big_real && !bool_only && rng.chance(1, 15);
        if nan_real {
            cfg = sqlgen::TableCfg { variant: sqlgen::Variant::Split, kmod: sqlgen::KMod::None, nmod: sqlgen::NMod::None, with_b: false, b_not_null: false, with_ts: false, order: vec!["k", "n", "r"] };
        }
        let query = if nan_real {
            let mut q = sqlgen::Query::default();
            q.aggregate = true;
            q.projections = vec!["COUNT(DISTINCT r) AS dc".to_owned(), "COUNT(r) AS c".to_owned(), "COUNT(*) AS a".to_owned()];
            if rng.chance(1, 2) {
                q.group_by = vec!["k".to_owned()];
                q.projections.push("k".to_owned());
            }
            if rng.chance(1, 3) {
                q.having = Some(format!("COUNT(DISTINCT r) >= {}", rng.range(1, 3)));
            }
            q
        } else if bool_only {
            // only BOOL_AND / BOOL_OR in the select list (they saturate), other aggregates in HAVING only
            let mut q = sqlgen::Query::default();
            q.aggregate = true;
            let c = rng.range(0, 2);
            q.projections = match rng.below(3) {
                0 => vec![format!("BOOL_OR(n > {}) AS any_big", c)],
                1 => vec![format!("BOOL_AND(n >= {}) AS all_big", c)],
                _ => vec![format!("BOOL_OR(n > {}) AS any_big", c), format!("BOOL_AND(n >= {}) AS all_big", c)],
            };
            if rng.chance(1, 3) {
                q.group_by = vec!["k".to_owned()];
                q.projections.push("k".to_owned());
            }
            q.having = Some(match rng.below(3) { 0 => format!("COUNT(*) >= {}", rng.range(2, 4)), 1 => format!("SUM(n) > {}", c), _ => format!("COUNT(n) >= {}", rng.range(1, 3)) });
            q
        } else if big_real {
            // only aggregates whose result is exact for these inputs (no sums of squares)
            let mut q = sqlgen::Query::default();
            q.aggregate = true;
            q.projections = vec!["SUM(r) AS s".to_owned(), "MIN(r) AS lo".to_owned(), "MAX(r) AS hi".to_owned(), "COUNT(r) AS c".to_owned(), "COUNT(DISTINCT r) AS dc".to_owned()];
            if rng.chance(1, 2) {
                q.group_by = vec!["k".to_owned()];
                q.projections.push("k".to_owned());
            }
            q
        } else if huge {
            let mut q = sqlgen::Query::default();
            q.aggregate = true;
            q.projections = vec![format!("PERCENTILE(n, 0.{}) AS p", rng.range(1, 9)), "COUNT(*) AS c".to_owned(), "COUNT(DISTINCT n) AS dn".to_owned(), "MIN(n) AS lo".to_owned(), "AVG(n) AS a".to_owned()];
            if rng.chance(1, 2) {
                q.group_by = vec!["k".to_owned()];
                q.projections.push("k".to_owned());
            }
            q
        } else if split_law {
            let mut q = sqlgen::Query::default();
            q.aggregate = true;
            q.group_by = match rng.below(3) {
                0 => Vec::new(),
                1 => vec!["k".to_owned()],
                _ => vec!["n".to_owned()],
            };
            q.projections = q.group_by.clone();
            let text_or_num = if rng.chance(1, 2) { "k" } else { "r" };
            q.projections.extend(vec!["COUNT(*) AS c".to_owned(), "SUM(n) AS s".to_owned(), "SUM(r) AS sr".to_owned(), "MIN(n) AS lo".to_owned(), "MAX(n) AS hi".to_owned(), format!("MIN({}) AS lo2", text_or_num), format!("MAX({}) AS hi2", text_or_num)]);
            if rng.chance(1, 3) {
                q.filter = Some(sqlgen::gen_filter(rng, &cfg, ""));
            }
            q
        } else {
            sqlgen::gen_aggregate(rng, &cfg, &AggCfg { order_insensitive: true, allow_join: true, max_aggs: 5 })
        };
        let mut query = query;
        if !split_law && !huge && !nan_real && rng.chance(1, 6) {
            // groups come out in key order, so the first n groups do not depend on arrival order either
            query.limit = Some(rng.range(1, 3) as usize);
        }
        let joined: Vec<Vec<u8>> = if query.join.is_some() { (0..rng.range(1, 8)).map(|_| sqlgen::gen_joined_line(rng, lc.keys.min(3), 10).into_bytes()).collect() } else { Vec::new() };
        let n_lines = if huge { rng.range(4100, if thorough { 12000 } else { 5400 }) as usize } else if large { rng.range(18, if thorough { 60 } else { 40 }) as usize } else { rng.range(1, 10) as usize };
        let mut specs: Vec<sqlgen::LineSpec> = (0..n_lines).map(|_| sqlgen::gen_line_spec(rng, &cfg, &lc)).collect();
        if !huge && specs.len() >= 2 && rng.chance(1, 4) {
            // byte-identical lines (a log that repeats itself): copies of earlier lines at random positions
            for _ in 0..rng.range(1, 3) {
                let from = rng.below(specs.len());
                let to = rng.below(specs.len());
                let copy = specs[from].clone();
                specs[to] = copy;
            }
        }
        if big_n {
            for s in specs.iter_mut().take(9) {
                if s.n.is_some() && rng.chance(1, 2) {
                    s.n = Some(format!("{}", rng.range(-900_000_000, 900_000_000)));
                }
            }
            // keep the sum of squares inside i64: at most 9 large values
            for s in specs.iter_mut().skip(9) {
                if let Some(n) = &s.n {
                    if n.len() > 7 {
                        s.n = Some("5".to_owned());
                    }
                }
            }
        }
        for s in specs.iter_mut() {
            if s.r.is_some() && rng.chance(1, 3) {
                s.r = Some(sqlgen::fmt_quarter(rng.range(-65536, 65536)));
            }
        }
        if nan_real {
            for s in specs.iter_mut() {
                if rng.chance(1, 2) {
                    s.r = Some(rng.pick(&["NaN", "NaN", "nan", "-NaN", "inf", "-inf"]).to_string());
                } else {
                    s.r = Some(sqlgen::fmt_quarter(rng.range(-2, 2)));
                }
            }
        }
        if big_real {
            // even integers: one value just above 2^53 per case, the rest small, so every partial sum is exact
            let big_at = rng.below(specs.len());
            for (i, s) in specs.iter_mut().enumerate() {
                s.r = Some(if i == big_at { rng.pick(&["9007199254740994", "9007199254741000"]).to_string() } else { format!("{}.0", 2 * rng.range(0, 40)) });
            }
        }
        // no group may be all-NULL in n or r (see assumptions): give every key's first line values
        let mut seen: Vec<Option<String>> = Vec::new();
        for s in specs.iter_mut() {
            if !seen.contains(&s.k) {
                seen.push(s.k.clone());
                if s.n.is_none() {
                    s.n = Some(format!("{}", rng.range(-3, 3)));
                }
                if s.r.is_none() {
                    s.r = Some(sqlgen::fmt_quarter(rng.range(-8, 8)));
                }
            }
        }
        let n = specs.len();
        let mut orders: Vec<Vec<usize>> = Vec::new();
        if huge {
            let ident: Vec<usize> = (0..n).collect();
            orders.push(ident.iter().rev().cloned().collect());
            let mut o = ident.clone();
            rng.shuffle(&mut o);
            orders.push(o);
        } else if n <= 4 {
            // all permutations
            let mut perm: Vec<usize> = (0..n).collect();
            permutations(&mut perm, 0, &mut orders);
        } else {
            let ident: Vec<usize> = (0..n).collect();
            orders.push(ident.iter().rev().cloned().collect());
            for r in 1..n.min(4) {
                let mut o = ident.clone();
                o.rotate_left(r);
                orders.push(o);
            }
            // producer merges: lines dealt to 2-3 producers, merged in a scripted order
            for _ in 0..6 {
                let producers = rng.range(2, 3) as usize;
                let mut queues: Vec<Vec<usize>> = vec![Vec::new(); producers];
                for i in 0..n {
                    queues[rng.below(producers)].push(i);
                }
                let mut o = Vec::new();
                while o.len() < n {
                    let p = rng.below(producers);
                    if !queues[p].is_empty() {
                        o.push(queues[p].remove(0));
                    }
                }
                orders.push(o);
            }
            while orders.len() < if large { 14 } else { 30 } {
                let mut o = ident.clone();
                rng.shuffle(&mut o);
                orders.push(o);
            }
        }
        json!({
            "prop": "C15",
            "cfg": cfg_to_json(&cfg),
            "stmt": query.text(),
            "joined": if query.join.is_some() { J::String(enc(&gen::join_lines(&joined, true))) } else { J::Null },
            "group_keys": query.group_by,
            "split_law": split_law && !huge && !big_real && !nan_real,
            "specs": specs.iter().map(spec_to_json).collect::<Vec<_>>(),
            "orders": orders,
            "cut": rng.below(n + 1),
            "format": if split_law { "json" } else { *rng.pick(&["text", "json", "json"]) },
            "follow_orders": rng.below(3),
        })
    }

    fn shrink(&self, case: &J) -> Vec<J> {
        use crate::shrink::*;
        let mut out = Vec::new();
        array_field(case, "orders", &mut out);
        array_field(case, "specs", &mut out);
        num_field(case, "follow_orders", 0, &mut out);
        // simplify single fields of specs
        if let Some(specs) = case.get("specs").and_then(|x| x.as_array()).filter(|a| a.len() <= 64) {
            for (i, s) in specs.iter().enumerate() {
                for key in ["d", "r", "n"] {
                    if s.get(key).map(|x| !x.is_null()).unwrap_or(false) {
                        let mut v = specs.clone();
                        v[i][key] = J::Null;
                        out.push(with_field(case, "specs", J::Array(v)));
                    }
                }
            }
        }
        out
    }

    fn check(&self, case: &J, want_trace: bool) -> Outcome {
        let mut out = Outcome::default();
        let cfg = match case.get("cfg").and_then(cfg_from_json) {
            Some(c) => c,
            None => {
                out.invalid = Some("bad table configuration".to_owned());
                return out;
            }
        };
        let mut specs = Vec::new();
        for s in jarr(case, "specs") {
            match spec_from_json(s) {
                Some(s) => specs.push(s),
                None => {
                    out.invalid = Some("bad line spec".to_owned());
                    return out;
                }
            }
        }
        if specs.is_empty() {
            out.invalid = Some("no lines".to_owned());
            return out;
        }
        let stmt = jstr(case, "stmt");
        let format = jstr(case, "format");
        let defs = format!("{} {}", sqlgen::table_defs(&cfg), sqlgen::JOINED_DEFS);
        let joined: Option<Vec<u8>> = case.get("joined").and_then(|j| j.as_str()).map(dec);
        let lines: Vec<Vec<u8>> = specs.iter().map(|s| sqlgen::render_line(&cfg, s).into_bytes()).collect();
        let n = lines.len();
        let upper = stmt.to_uppercase();
        let minmax_text = upper.contains("MIN(K)") || upper.contains("MAX(K)") || upper.contains("MIN(D)") || upper.contains("MAX(D)");
        let features = json!({"minmax_non_numeric": minmax_text, "having": upper.contains(" HAVING ")});
        let content_hash = fnv_mix(fnv(stmt.as_bytes()), fnv(serde_json::to_string(&case["specs"]).unwrap().as_bytes()));

        let run_order = |out: &mut Outcome, order: &[usize], label: &str, trace: bool| {
            let ls: Vec<Vec<u8>> = order.iter().map(|i| lines[*i].clone()).collect();
            let mut b = batch_spec(&defs, &stmt, &[gen::join_lines(&ls, true)], joined.as_deref());
            b.format = format.clone();
            run(out, label, &b, trace)
        };
        let ident: Vec<usize> = (0..n).collect();
        let reference = run_order(&mut out, &ident, "reference order", want_trace);
        if !usable(&mut out, "c15", &reference, &features) {
            return out;
        }
        let ref_obs = (status_label(&reference.status), records(&reference));
        if let Status::Setup(_) = reference.status {
            return out;
        }
        // groups with >= 2 rows?
        let mut key_counts: BTreeMap<String, usize> = BTreeMap::new();
        for s in &specs {
            *key_counts.entry(format!("{:?}", s.k)).or_insert(0) += 1;
        }
        let some_group_multi = key_counts.values().any(|c| *c >= 2) || !upper.contains(" GROUP BY ");

        let mut orders: Vec<Vec<usize>> = jarr(case, "orders").iter().map(|o| normalise_order(&o.as_array().map(|a| a.iter().filter_map(|x| x.as_u64()).map(|x| x as usize).collect::<Vec<_>>()).unwrap_or_default(), n)).collect();
        orders.truncate(40);
        let follow_orders = jusize(case, "follow_orders", 0);
        for (oi, order) in orders.iter().enumerate() {
            if *order == ident {
                continue;
            }
            let res = run_order(&mut out, order, &format!("arrival order {:?}", order), false);
            out.fault("reorder", 1);
            if !res.terminated() {
                out.violate("c15.no_termination", format!("order {:?}", order), features.clone());
                return out;
            }
            let obs = (status_label(&res.status), records(&res));
            if obs != ref_obs {
                out.violate(
                    "c15.order_dependent",
                    format!("{}: lines in order {:?} give {} {} but in order {:?} give {} {}", stmt, ident, ref_obs.0, show(&ref_obs.1), order, obs.0, show(&obs.1)),
                    features.clone(),
                );
                if want_trace {
                    let mut o2 = Outcome::default();
                    let _ = run_order(&mut o2, order, "failing order", true);
                    out.trace.extend(o2.trace);
                }
                return out;
            }
            if some_group_multi && n >= 2 {
                out.nontrivial.push(fnv_mix(content_hash, fnv(format!("{:?}", order).as_bytes())));
            }
            // the same arrival order through the follow path: the last table on screen
            // (follow mode gives LIMIT on an aggregate another meaning - it stops following - so not with LIMIT)
            if oi < follow_orders && reference.status == Status::Ok && joined.is_none() && !upper.contains(" LIMIT ") {
                let ls: Vec<Vec<u8>> = order.iter().map(|i| lines[*i].clone()).collect();
                let mut f = WorldSpec::new(&defs, &stmt, Mode::FollowExec { head: true });
                f.files.push((FOLLOW_PATH.to_owned(), Vec::new()));
                f.appends = ls.iter().map(|l| { let mut v = l.clone(); v.push(b'\n'); v }).collect();
                f.end_after_idle = Some(1);
                f.format = format.clone();
                let fr = run(&mut out, "follow path", &f, false);
                if fr.terminated() && fr.status == Status::Ok {
                    let tables = super::c11::refreshes(&fr.stdout);
                    let last = tables.last().cloned().unwrap_or_default();
                    if last != ref_obs.1 {
                        out.violate("c15.order_dependent_follow", format!("{}: follow mode with arrival order {:?} ends with {} but the reference table is {}", stmt, order, show(&last), show(&ref_obs.1)), features.clone());
                        return out;
                    }
                    out.probe("follow_orders", 1);
                }
            }
        }

        // --- how the input is split into files must not matter either, for any statement (HAVING included): the
        // same lines as two input files of one run (the first one possibly without its final newline)
        if reference.status == Status::Ok {
            let cut = jusize(case, "cut", 0).min(n);
            let la: Vec<Vec<u8>> = ident[..cut].iter().map(|i| lines[*i].clone()).collect();
            let lb: Vec<Vec<u8>> = ident[cut..].iter().map(|i| lines[*i].clone()).collect();
            let first_nl = jusize(case, "cut", 0) % 2 == 0 || la.last().map(|l| l.is_empty()).unwrap_or(true);
            let mut two = batch_spec(&defs, &stmt, &[gen::join_lines(&la, first_nl), gen::join_lines(&lb, true)], joined.as_deref());
            two.format = format.clone();
            let tr = run(&mut out, "A and B as two input files", &two, false);
            let obs = (status_label(&tr.status), records(&tr));
            if tr.terminated() && obs != ref_obs {
                out.violate("c15.split_files", format!("{}: lines 0..{} and {}.. given as two input files print {} {} but as one input {} {}", stmt, cut, cut, obs.0, show(&obs.1), ref_obs.0, show(&ref_obs.1)), features.clone());
                return out;
            }
            out.probe("two_input_files", 1);
            out.probe("two_input_files_with_having", upper.contains(" HAVING ") as u64);
        }

        // --- split law
        if jbool(case, "split_law") && reference.status == Status::Ok && format == "json" && !upper.contains(" HAVING ") {
            let cut = jusize(case, "cut", 0).min(n);
            let keys: Vec<String> = jarr(case, "group_keys").iter().filter_map(|k| k.as_str()).map(|s| s.to_owned()).collect();
            let part = |out: &mut Outcome, idx: &[usize], label: &str| run_order(out, idx, label, false);
            let a = part(&mut out, &ident[..cut], "part A");
            let b = part(&mut out, &ident[cut..], "part B");
            {
                let la: Vec<Vec<u8>> = ident[..cut].iter().map(|i| lines[*i].clone()).collect();
                // part A named twice on the command line: the same as a file that holds A's lines twice
                if !la.is_empty() {
                    let file_a = gen::join_lines(&la, true);
                    let mut twice = batch_spec(&defs, &stmt, &[file_a.clone()], joined.as_deref());
                    let entry = twice.files[0].clone();
                    twice.files.push(entry);
                    twice.format = format.clone();
                    let tw = run(&mut out, "part A named twice", &twice, false);
                    let mut doubled = file_a.clone();
                    doubled.extend_from_slice(&file_a);
                    let mut one = batch_spec(&defs, &stmt, &[doubled], joined.as_deref());
                    one.format = format.clone();
                    let on = run(&mut out, "A's lines twice in one file", &one, false);
                    if tw.terminated() && on.terminated() && (status_label(&tw.status), records(&tw)) != (status_label(&on.status), records(&on)) {
                        out.violate("c15.split_files", format!("{}: the same input file named twice prints {} but a file holding its lines twice prints {}", stmt, show(&records(&tw)), show(&records(&on))), features.clone());
                        return out;
                    }
                    out.probe("same_file_named_twice", 1);
                }
            }
            out.fault("split", 1);
            if a.status == Status::Ok && b.status == Status::Ok {
                let (ta, tb, tw) = (table_by_key(&records(&a), &keys), table_by_key(&records(&b), &keys), table_by_key(&ref_obs.1, &keys));
                if let (Some(ta), Some(tb), Some(tw)) = (ta, tb, tw) {
                    let mut union: Vec<String> = ta.keys().chain(tb.keys()).cloned().collect();
                    union.sort();
                    union.dedup();
                    let mut whole_keys: Vec<String> = tw.keys().cloned().collect();
                    whole_keys.sort();
                    if union != whole_keys {
                        out.violate("c15.split_groups", format!("{}: groups of A++B are {:?} but the union of the parts' groups is {:?}", stmt, whole_keys, union), features.clone());
                        return out;
                    }
                    for key in &union {
                        let w = &tw[key];
                        let empty = serde_json::Map::new();
                        let ra = ta.get(key).unwrap_or(&empty);
                        let rb = tb.get(key).unwrap_or(&empty);
                        let get = |m: &serde_json::Map<String, J>, c: &str| m.get(c).cloned().unwrap_or(J::Null);
                        let checks: Vec<(&str, J)> = vec![
                            ("c", add_cells(&get(ra, "c"), &get(rb, "c"))),
                            ("s", add_cells(&get(ra, "s"), &get(rb, "s"))),
                            ("sr", add_cells(&get(ra, "sr"), &get(rb, "sr"))),
                            ("lo", min_cells(&get(ra, "lo"), &get(rb, "lo"))),
                            ("hi", max_cells(&get(ra, "hi"), &get(rb, "hi"))),
                            ("lo2", min_cells(&get(ra, "lo2"), &get(rb, "lo2"))),
                            ("hi2", max_cells(&get(ra, "hi2"), &get(rb, "hi2"))),
                        ];
                        for (col, expect) in checks {
                            if w.contains_key(col) && !same_cell(&w[col], &expect) {
                                out.violate(
                                    "c15.split_combination",
                                    format!("{}: group {} column {}: over A++B it is {} but combining the parts (A: {}, B: {}) gives {} (cut after line {})", stmt, key, col, w[col], get(ra, col), get(rb, col), expect, cut),
                                    json!({"minmax_non_numeric": col.ends_with('2') && upper.contains("(K)"), "having": false}),
                                );
                                return out;
                            }
                        }
                    }
                    out.probe("split_law_checked", 1);
                    if cut > 0 && cut < n {
                        out.nontrivial.push(fnv_mix(content_hash, 900_000 + cut as u64));
                    }
                }
            }
        }
        out.probe("first_value_null", specs.first().map(|s| s.n.is_none() || s.r.is_none()).unwrap_or(false) as u64);
        out.probe("timestamp_argument", upper.contains("(D)") as u64);
        out.probe("join_statement", joined.is_some() as u64);
        out.probe("large_more_than_16_lines", (n > 16) as u64);
        out.probe("huge_more_than_4096_values_in_a_group", (n > 4096) as u64);
        out.probe("nan_or_infinite_real_values", lines.iter().any(|l| l.ends_with(b"NaN") || l.ends_with(b"nan") || l.ends_with(b"inf")) as u64);
        out.probe("bool_aggregates_only_in_select_list", (upper.contains("BOOL_") && !upper.contains("COUNT(*) AS") && upper.contains(" HAVING ")) as u64);
        out.probe("with_limit", upper.contains(" LIMIT ") as u64);
        out.probe("identical_adjacent_lines", lines.windows(2).any(|w| w[0] == w[1]) as u64);
        out.probe("pattern_from_column", stmt.contains("regexp_matches(") as u64);
        out.probe("real_integer_above_2_pow_53", specs.iter().any(|s| s.r.as_ref().map(|r| r.len() >= 16 && !r.contains('.')).unwrap_or(false)) as u64);
        out.probe("timestamps_sharing_a_second", (specs.iter().filter(|s| matches!(s.d, Some((2021, 3, 4, 10, 0, _, _)))).count() >= 2) as u64);
        out.probe("int_magnitude_above_1e8", specs.iter().any(|s| s.n.as_ref().map(|n| n.trim_start_matches('-').len() >= 9).unwrap_or(false)) as u64);
        out.probe("text_minmax", (upper.contains("MIN(K)") || upper.contains("MAX(K)")) as u64);
        out
    }
}

fn permutations(items: &mut Vec<usize>, k: usize, out: &mut Vec<Vec<usize>>) {
    if k == items.len() {
        out.push(items.clone());
        return;
    }
    for i in k..items.len() {
        items.swap(k, i);
        permutations(items, k + 1, out);
        items.swap(k, i);
    }
}
