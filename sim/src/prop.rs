//! Common shape of a property check: generate explicit cases from a PRNG, check one case by
//! running one or more worlds, report what was covered.

use std::collections::BTreeMap;

use serde_json::Value as J;

use crate::rng::Rng;
use crate::seam::{EvKind, Event, Fault};
use crate::world::WorldResult;

#[derive(Clone, Debug)]
pub struct Violation {
    /// oracle clause that failed, e.g. "c10.missing"
    pub class: String,
    pub detail: String,
    /// structural features of the failing case (used to match known findings)
    pub features: J,
}

#[derive(Default)]
pub struct Outcome {
    pub violation: Option<Violation>,
    /// the case is not a valid scenario for this property (e.g. statement does not parse)
    pub invalid: Option<String>,
    pub execs: u64,
    pub events: u64,
    /// simulated nanoseconds covered by the worlds of this case
    pub sim_ns: u64,
    /// hashes of distinct non-trivial runs found in this case (rule per property)
    pub nontrivial: Vec<u64>,
    pub faults: BTreeMap<String, u64>,
    pub probes: BTreeMap<String, u64>,
    pub trace: Vec<String>,
}

impl Outcome {
    pub fn fault(&mut self, name: &str, n: u64) {
        if n > 0 {
            *self.faults.entry(name.to_owned()).or_insert(0) += n;
        }
    }

    pub fn probe(&mut self, name: &str, n: u64) {
        if n > 0 {
            *self.probes.entry(name.to_owned()).or_insert(0) += n;
        }
    }

    pub fn violate(&mut self, class: &str, detail: String, features: J) {
        if self.violation.is_none() {
            self.violation = Some(Violation { class: class.to_owned(), detail, features });
        }
    }

    /// Account for one executed world: counts, fired faults, optional trace.
    pub fn absorb(&mut self, label: &str, res: &WorldResult, want_trace: bool) {
        self.execs += 1;
        self.events += res.log.len() as u64;
        self.sim_ns += res.clock_ns;
        self.fault("virtual_sleep", res.sleeps);
        self.probe("seam_calls_from_threads_spawned_by_the_sut", res.foreign_thread_calls);
        let mut eintr = 0;
        let mut eio = 0;
        let mut short = 0;
        let mut polls = 0;
        let mut interrupts = 0;
        let mut keys = 0;
        let mut landed = 0;
        for e in &res.log {
            match e.fault {
                Fault::Eintr => eintr += 1,
                Fault::Eio => eio += 1,
                _ => {}
            }
            if e.kind == EvKind::Read {
                if e.ret == 0 && e.req > 0 {
                    polls += 1;
                }
                if e.ret > 0 && (e.ret as usize) < (e.req as usize).min(e.len.saturating_sub(e.off)) {
                    short += 1;
                }
                if e.landed > 0 {
                    landed += 1;
                }
            }
            if e.interrupted {
                interrupts += 1;
            }
            if e.kind == EvKind::GetRandom {
                keys += 1;
            }
        }
        self.fault("eintr", eintr);
        self.fault("eio", eio);
        self.fault("short_read", short);
        self.fault("eof_poll", polls);
        self.fault("interrupt", interrupts);
        self.fault("hash_keys", keys);
        self.fault("append_before_read", landed);
        if want_trace {
            self.trace.push(format!("== world {} status={:?} total_lines={} events={}", label, res.status, res.total_lines, res.log.len()));
            for (seq, e) in res.log.iter().enumerate().take(400) {
                self.trace.push(render_event(seq, e));
            }
            if res.log.len() > 400 {
                self.trace.push(format!("   ... {} more events", res.log.len() - 400));
            }
        }
    }
}

pub fn render_event(seq: usize, e: &Event) -> String {
    let text = e.text.as_ref().map(|t| crate::util::enc(&t[..t.len().min(120)])).unwrap_or_default();
    let who = match e.kind {
        EvKind::Print | EvKind::Write | EvKind::Deliver => "sut ",
        EvKind::GetRandom => "entr",
        _ => "sut ",
    };
    let mut s = match e.kind {
        EvKind::Open => format!("{:4} {} open   file#{} -> fd {} (len {})", seq, who, e.file, e.ret, e.len),
        EvKind::Read => format!("{:4} {} read   file#{} off={} count={} -> {}", seq, who, e.file, e.off, e.req, e.ret),
        EvKind::Seek => format!("{:4} {} lseek  file#{} {} whence={} -> {}", seq, who, e.file, e.req, e.text.as_ref().map(|t| t[0]).unwrap_or(0), e.ret),
        EvKind::Close => format!("{:4} {} close  file#{}", seq, who, e.file),
        EvKind::Write => format!("{:4} {} write1 {} bytes", seq, who, e.req),
        EvKind::Print => format!("{:4} {} print  {}", seq, who, text),
        EvKind::GetRandom => format!("{:4} {} getrandom {} bytes", seq, who, e.req),
        EvKind::Deliver => format!("{:4} {} line   {}", seq, who, text),
        EvKind::Stat => format!("{:4} {} stat   file#{} -> size {}", seq, who, e.file, e.ret),
        EvKind::Constructed => format!("{:4} hrns executor constructed (start-up over)", seq),
    };
    if e.landed > 0 {
        s.push_str(&format!("   [writer appended {} bytes first]", e.landed));
    }
    match e.fault {
        Fault::None => {}
        Fault::Eintr => s.push_str("   [fault EINTR]"),
        Fault::Eio => s.push_str("   [fault EIO]"),
        Fault::Short(k) => s.push_str(&format!("   [short read <= {}]", k)),
    }
    if e.interrupted {
        s.push_str("   [INTERRUPT: running=false]");
    }
    s
}

pub trait Property: Sync {
    fn id(&self) -> &'static str;
    /// number of cases for (quick, thorough)
    fn budget(&self) -> (u64, u64);
    fn generate(&self, rng: &mut Rng, thorough: bool) -> J;
    fn check(&self, case: &J, want_trace: bool) -> Outcome;
    /// minimisation candidates for a failing case, most aggressive first
    fn shrink(&self, case: &J) -> Vec<J>;
    fn rule(&self) -> &'static str;
    fn level(&self) -> &'static str {
        "exploration"
    }
    fn assumptions(&self) -> Vec<String>;
}
