#!/bin/bash
# Sensitivity of the checks: every patch listed in tools/mutants/INDEX.tsv (hand-made changes and the
# reverted "fix:" commits) and every kept sub-agent change under seeded/<id>/patch.diff is applied to
# /repo, the check of the property it breaks is run (quick tier, evidence redirected to a scratch
# directory), and /repo is restored (git checkout -- .) straight afterwards.
#   expect <ID>  : that check must exit 1 (VIOLATION)
#   expect NONE  : semantics-preserving edit, all eight checks must exit 0
# usage: tools/sensitivity.sh [--tests] [name-substring ...]     --tests also runs the repo's 229 tests with the patch
set -u
HERE="$(cd "$(dirname "${BASH_SOURCE[0]}")/.." && pwd)"
# REPO: the tree the patches are applied to (the harness builds against the path in sim/Cargo.toml, /repo)
REPO="${REPO:-/repo}"
TESTS=0; [ "${1:-}" = "--tests" ] && { TESTS=1; shift; }
FILTER=("$@")
if [ -n "$(git -C "$REPO" status --porcelain --untracked-files=no)" ]; then echo "refusing: /repo has local modifications"; exit 2; fi
trap 'git -C "$REPO" checkout -q -- . 2>/dev/null' EXIT
SCR="$HERE/sim/target/sens.$$"; mkdir -p "$SCR"; cp "$HERE/known_findings.txt" "$SCR/"
RES="$HERE/tools/mutants/RESULTS.tsv"; : > "$RES.new"
ALL="C06 C07 C10 C11 C12 C15 C18 C19"
run_one() { # name expect patchfile reverse desc
  local name="$1" expect="$2" patch="$3" rev="$4" desc="$5"
  if [ ${#FILTER[@]} -gt 0 ]; then local hit=0; for f in "${FILTER[@]}"; do [[ "$name" == *"$f"* ]] && hit=1; done; [ $hit -eq 0 ] && return; fi
  local args=(); [ "$rev" = 1 ] && args=(-R)
  if ! git -C "$REPO" apply "${args[@]}" "$patch" 2>"$SCR/apply.err"; then echo -e "$name\t$expect\tPATCH-DOES-NOT-APPLY\t$desc" | tee -a "$RES.new"; return; fi
  local tests="-"
  if [ $TESTS -eq 1 ]; then
    if (cd "$REPO" && cargo test --workspace --no-fail-fast --offline 2>&1 | grep -q "^test result: ok. 229 passed"); then tests="229ok"; else tests="TESTS-FAIL"; fi
  fi
  local verdict="" t0=$SECONDS
  if [ "$expect" = "NONE" ]; then
    verdict="quiet"
    for p in $ALL; do VERIF_DIR="$SCR" "$HERE/check" "$p" quick >"$SCR/out.$p" 2>&1; rc=$?; [ $rc -ne 0 ] && verdict="ALARM($p,rc=$rc)"; done
  else
    caught=""
    for p in $expect; do VERIF_DIR="$SCR" "$HERE/check" "$p" quick >"$SCR/out.$p" 2>&1; rc=$?
      if [ $rc -eq 1 ]; then caught="$caught $p:$(grep -m1 -o 'class=[a-z0-9_.]*' "$SCR/out.$p")"; elif [ $rc -eq 2 ]; then caught="$caught $p:HARNESS-ERROR"; fi; done
    if [ -n "$caught" ]; then verdict="caught$caught"; else verdict="MISSED"; fi
  fi
  git -C "$REPO" checkout -q -- .
  echo -e "$name\t$expect\t$verdict\t$tests\t$((SECONDS-t0))s\t$desc" | tee -a "$RES.new"
}
while IFS=$'\t' read -r name expect desc; do
  [ -z "$name" ] && continue
  rev=0; [[ "$name" == revert_* ]] && rev=1
  run_one "$name" "$expect" "$HERE/tools/mutants/$name.diff" "$rev" "$desc"
done < "$HERE/tools/mutants/INDEX.tsv"
for d in "$HERE"/seeded/*/; do
  [ -f "$d/patch.diff" ] || continue
  id="$(basename "$d")"; expect="$(python3 -c "import json,sys;m=json.load(open('$d/meta.json'));print(' '.join([m['property']]+m.get('also_run',[])))" 2>/dev/null)"
  run_one "seeded/$id" "$expect" "$d/patch.diff" 0 "sub-agent change, see seeded/$id/meta.json"
done
if [ ${#FILTER[@]} -eq 0 ]; then mv "$RES.new" "$RES"; else cat "$RES.new" >> "$RES"; rm -f "$RES.new"; fi
rm -rf "$SCR"
