#!/bin/bash
# Confirms one sub-agent change in the scratch worktree /tmp/wt_mut and, if confirmed, keeps it under
# /verif/seeded/<PROP>-<ID>/ (patch.diff, demo.rs, meta.json). usage: confirm_seed.sh <PROP> <A|B> [srcdir] [ID]
set -u
P="$1"; X="$2"; SRC="${3:-/tmp/wt_$P/out}"; ID="${4:-$X}"; WT="${WT:-/tmp/wt_mut}"
export CARGO_TARGET_DIR=$WT/target CARGO_NET_OFFLINE=true
[ -d "$WT" ] || git -C /repo worktree add -q --detach "$WT" HEAD || exit 2   # remove afterwards: git -C /repo worktree remove --force /tmp/wt_mut
cd $WT || exit 2
git checkout -q -- . ; rm -rf tests; mkdir -p tests; cp "$SRC/$X.demo.rs" tests/demo.rs
clean=$(cargo test --offline --test demo 2>&1 | grep -E "^test result" | tail -1)
git apply "$SRC/$X.patch.diff" || { echo "$P-$X: patch does not apply"; git checkout -q -- .; rm -rf tests; exit 1; }
all=$(cargo test --offline --no-fail-fast 2>&1 | grep -E "^test result")
git checkout -q -- . ; rm -rf tests
suite=$(echo "$all" | grep -c "ok. 229 passed; 0 failed")
demo_fail=$(echo "$all" | grep -c "FAILED")
echo "$P-$X: clean demo: [$clean]"; echo "$all" | sed 's/^/    with patch: /'
if [[ "$clean" == *"ok."* && "$clean" != *" 0 passed"* && $suite -ge 1 && $demo_fail -ge 1 ]]; then
  D=/verif/seeded/$P-$ID; mkdir -p $D; cp "$SRC/$X.patch.diff" $D/patch.diff; cp "$SRC/$X.demo.rs" $D/demo.rs
  python3 - "$P" "$ID" "$SRC/$X.meta.txt" "$D/meta.json" "$clean" <<'PY'
import json,sys
p,x,meta,out,clean=sys.argv[1:6]
json.dump({"property":p,"id":p+"-"+x,"origin":"independent sub-agent given only the property text and a scratch worktree",
 "needs_to_manifest_and_description":open(meta).read(),
 "confirmed":{"how":"tools/confirm_seed.sh in scratch worktree /tmp/wt_mut: demo as tests/demo.rs on the clean checkout, then patch applied and `cargo test --offline --no-fail-fast`",
   "demo_on_clean_checkout":clean,"with_patch":"existing suite 229 passed / 0 failed; demo FAILED"},
 "detected_by":None},open(out,"w"),indent=1)
PY
  echo "$P-$X: CONFIRMED and kept in $D"
else
  echo "$P-$X: NOT confirmed (suite=$suite demo_fail=$demo_fail)"
fi
