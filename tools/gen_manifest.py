#!/usr/bin/env python3
"""Regenerates /verif/MANIFEST.json (run from /verif)."""
import json
na = {
"C01":"regex/split extraction is a pure function of (definition text, one line): no I/O, state, clock, schedule or fault for a simulator to own; deterministic simulation has nothing to permute or inject (DESIGN.md section 4). (The generated table family's expected rows are cross-checked inside C06, but that is a by-product, not a claim on C01.)",
"C02":"JSON-path extraction is a pure function of (definition, one line); nothing to schedule or inject.",
"C03":"SELECT/WHERE semantics are per-row pure evaluation; the only cross-row state (DISTINCT, LIMIT) is decided where history matters (C11, C07, C06).",
"C04":"GROUP BY/aggregate values are a fold over the file in file order, a pure function of (statement, file); the history-dependent faces are claimed separately (per-prefix C11, arrival order C15, noise C06, interruption C19).",
"C05":"JOIN pairing is a pure function of two files; the loader's I/O behaviour is exercised under C12/C19 and hash-order independence of partners under C18.",
"C08":"DISTINCT is a pure function of the row sequence; its one history-dependent clause (memory surviving follow-mode refreshes) is decided by C11.",
"C09":"totality over all data/programs/TZ is universally quantified over inputs with no schedule or fault in it (fuzzing territory); inside simulated runs an SUT panic fails the run under the claimed property it breaks.",
"C13":"operator precedence is a pure function of the query text.",
"C14":"parser totality is a pure function of the text.",
"C16":"Eq/Ord/Hash laws of Value are algebraic facts over triples of values; the one entropy-dependent consequence (hash-seed dependent results for +-0.0) is decided under C18.",
"C17":"output formatting is a pure function of (result rows, format); the Printer seam has no fault the property speaks about.",
"C20":"layout/case/clause-order insensitivity is a relation between two parses, pure."
}
TRUST = "Trusted base: the libc seam (std reaches the kernel through the libc symbols the harness defines, on x86-64 linux-gnu; every one of them is self-checked at start-up with plain std calls, exit 2 otherwise), the per-property reference model/oracle in /verif/sim/src/props, the harness driver reproducing src/main.rs' contract with the library (files opened in command-line order, running=true before a query). Sampling, not proof."
checks = {
"C06": ("exploration", "Twin simulated worlds without/with injected non-admitted lines (torn, foreign, NOT NULL-failing, garbage) in the main input, the joined file, across file boundaries and in the follow-mode append stream; outputs must be byte-identical for plain/DISTINCT/LIMIT/aggregate/join statements in batch and follow mode; the admission rule itself is checked on the generated table family where the typed row is known by construction; a size regime adds noise lines of 8 KiB / 64 KiB / 128 KiB of padding followed by a valid record.", "3 (C06)"),
"C07": ("exploration", "LIMIT n swept over 0..rows+2 per generated case in batch mode (1..3 files, joins with fan-out, DISTINCT, NULL-only rows, aggregates) and follow mode (writer stops after the line producing the n-th row: the follower must return by itself within 64 EOF polls); rows compared with the unlimited statement fed line by line, consumption judged from statistics.total_lines and line-granular fetch counts at the read(2) seam; twins: print_result=false, pipe inputs, the query twice under one interrupt flag, an engine handed over after the caller reached the limit itself.", "3 (C07)"),
"C10": ("exploration", "Seeded search over writer chunkings (down to single bytes, inside multi-byte characters, around the newline) x poll placements x reader buffer sizes x short reads/EINTR, driving the real FollowFileIterator and the whole FollowFileExecutor through the libc seam against a byte-vector reference model; prefix safety at every seam event, completeness at every quiescent point and at the end; a third of the whole-executor runs are interrupted (running.store(false)) before a seeded seam event, after which only prefix safety is demanded.", "3 (C10)"),
"C11": ("exploration", "For every prefix length k of generated inputs: the engine fed line by line (the call follow mode makes) and the real FollowFileExecutor under generated writer/poll schedules versus a batch FileExecutor world over exactly the first k lines; statements incl. DISTINCT, HAVING, both, COUNT(DISTINCT), PERCENTILE, ARRAY_AGG/STRING_AGG; a size regime feeds 4 300-9 500 lines into one or two groups under PERCENTILE / COUNT(DISTINCT) and compares with batch runs at eight seeded prefix lengths beyond 4096 values and at the end.", "3 (C11)"),
"C12": ("fault_enumeration", "Batch reader under short reads, EINTR, file splits, CRLF, missing final newline, lines over several 8 KiB refills; per generated scenario the undecodable-line position is enumerated over EVERY line of every file and the EIO position over every read; main input and the joined-file loader; model = concatenated split-at-newline lines.", "3 (C12)"),
"C15": ("exploration", "Arrival order as a scripted merge of producers: every permutation (<=4 lines) or reverse/rotations/producer merges/random orders (<=40) of the same lines through batch FileExecutor (and a subset through FollowFileExecutor) must give the identical table; split law (counts/sums add, min/max combine, groups union) checked by combining the parts' tables in the harness.", "3 (C15)"),
"C18": ("exploration", "getrandom seam: the same (definitions, statement, input) is executed on fresh threads under K scripted RandomState key blocks (8 quick / 64 thorough), twice under the same block, repeatedly inside one thread and for a fraction under real OS entropy; all outputs byte-identical; likewise under other TZ/locale settings, with the input cut into several files, with no other tables defined, on an engine that loaded its joined table before, and after other queries of the same process (history oracle). The two orders the statement fixes outright (joined partners in joined-file order, TEXT group keys ascending) are checked directly. A failure replays with the very keys that caused it.", "3 (C18)"),
"C19": ("fault_enumeration", "Per generated scenario the interrupt (running.store(false)) is placed before EVERY seam event of the uninterrupted run (line-granular serving: each main-file and joined-file line has its own read), one past the end and inside EVERY println; oracle: Ok(()), no line consumed after the interrupt (<=11 joined-file lines), output == a fault-free run over exactly the consumed lines; follow mode: no later record, returns once the next line completes; after an attempt interrupted during the joined-file load the statement is given again in the same session (same Tables, flag re-armed) and must print the uninterrupted output.", "3 (C19)"),
}
m = {
 "version": 1,
 "setup_cmd": "cd /verif/sim && CARGO_NET_OFFLINE=true cargo build --release --offline",
 "hooks": {
   "guard": "none (no hook in /repo: the seam is the libc system-call boundary, defined in the harness executable /verif/sim)",
   "enable": "not needed; every check runs `cargo build --release --offline` in /verif/sim, whose path dependency is /repo's working tree",
   "baseline_off_cmd": "cd /repo && cargo test --workspace --no-fail-fast --offline",
   "source_commits": [],
   "add_only": True
 },
 "engines": [
   {"name":"sim","path":"/verif/sim","serves_properties":sorted(checks.keys()),"kind_free_text":"deterministic simulation with fault injection: the unmodified sqlgrep library runs on a fresh thread whose libc boundary (open64/read/readv/pread64/lseek64/close/dup/fcntl/write(1)/getrandom/clock_gettime/nanosleep/statx/realpath) is owned by a seeded simulator (virtual append-only disk incl. pipe-like files and file metadata, virtual clock, writer / interrupter / entropy actors, TZ as scenario input); seeded search over schedules and faults, generic minimiser, replay files"}
 ],
 "checks": [],
 "notes": "One integer (VERIF_SEED, default 20260925) decides every generated scenario; running a scenario draws no randomness and reads no clock. Violations are minimised and written to /verif/replays/<file>.json; ./check <ID> --replay <file> re-runs one in a fresh process. known_findings.txt lists genuine defects (known: / fixed:). ./check selftest-determinism re-runs every property at 1/4/16 workers and compares per-case digests. tools/sensitivity.sh applies the kept seeded changes (/verif/seeded) and the reverted fix commits to scratch copies and expects the named check to fail.",
 "not_applicable": [{"property_id":k,"reason":v} for k,v in sorted(na.items())]
}
for pid,(cat,text,ref) in sorted(checks.items()):
    m["checks"].append({
      "property_id": pid,
      "quick_cmd": f"./check {pid} quick",
      "thorough_cmd": f"./check {pid} thorough",
      "evidence_file": f"/verif/evidence/{pid}.json",
      "replay_cmd_template": f"./check {pid} --replay {{path}}",
      "engine": "sim",
      "level_claimed": {"category": cat, "text": text, "design_ref": "DESIGN.md section "+ref},
      "level_note": TRUST,
      "technique": "deterministic simulation with fault injection (seeded schedule/fault search at the libc seam, reference-model oracle, minimised replay)"
    })
json.dump(m, open("MANIFEST.json","w"), indent=1)
print("MANIFEST.json written:", len(m["checks"]), "checks,", len(m["not_applicable"]), "not applicable")
