#!/bin/bash
# Determinism self-test: for every claimed property run the same seeds twice at 1, 4 and 16 worker
# processes and compare the per-case digests (case JSON, events, worlds, non-trivial signatures,
# violation class+detail). Any difference = the simulation is not a pure function of the seed.
# usage: determinism.sh <sim binary> [cases per property (default 2000)] [seed ...]
set -u
BIN="$1"; shift
RUNS="${1:-2000}"; [ $# -gt 0 ] && shift
SEEDS=("$@"); [ ${#SEEDS[@]} -eq 0 ] && SEEDS=(20260925 7)
HERE="$(cd "$(dirname "${BASH_SOURCE[0]}")/.." && pwd)"
WORK="$HERE/sim/target/selftest.$$"
mkdir -p "$WORK"
cp "$HERE/known_findings.txt" "$WORK/" 2>/dev/null
fail=0
for P in ${DET_PROPS:-C06 C07 C10 C11 C12 C15 C18 C19}; do
  for S in "${SEEDS[@]}"; do
    ref=""
    for W in 1 4 16 16; do
      out="$WORK/$P.$S.$W.$RANDOM.json"
      VERIF_DIR="$WORK" VERIF_SEED="$S" VERIF_RUNS="$RUNS" VERIF_WORKERS="$W" VERIF_DIGEST=1 VERIF_DIGEST_FILE="$out" "$BIN" run "$P" quick >"$WORK/log" 2>&1
      rc=$?
      if [ $rc -eq 2 ]; then echo "HARNESS ERROR in $P seed $S workers $W"; cat "$WORK/log"; fail=1; continue; fi
      sum="$(sha256sum "$out" | cut -d' ' -f1)"
      if [ -z "$ref" ]; then ref="$sum"; reffile="$out"
      elif [ "$ref" != "$sum" ]; then
        echo "NONDETERMINISM property=$P seed=$S workers=$W: digests differ from the 1-worker run"
        python3 - "$reffile" "$out" <<'PY'
import json,sys
a=dict(map(tuple,json.load(open(sys.argv[1])))); b=dict(map(tuple,json.load(open(sys.argv[2]))))
d=[k for k in a if a[k]!=b.get(k)]
print("  differing case indices (first 10):", d[:10], "of", len(d))
PY
        fail=1
      fi
    done
    # process history must not be an input either: a sample of cases, each as the only case of a fresh
    # process, must give the digest it had in the middle of the batch
    FRESH="${DET_FRESH:-60}"
    python3 - "$BIN" "$P" "$S" "$reffile" "$FRESH" "$WORK" <<'PY' || fail=1
import json,subprocess,sys,os
binp,prop,seed,ref,fresh,work=sys.argv[1:7]
ref=dict(map(tuple,json.load(open(ref))))
bad=[]
idx=sorted(ref)[:int(fresh)]
for i in idx:
    out=os.path.join(work,"fresh.json")
    env=dict(os.environ,VERIF_DIGEST="1",TZ="UTC")
    subprocess.run([binp,"worker",prop,seed,"0",str(i),"1000000000",str(i+1),out],env=env,check=True)
    d=dict(map(tuple,json.load(open(out))["digests"]))
    if d.get(i)!=ref[i]: bad.append(i)
if bad:
    print("NONDETERMINISM property=%s seed=%s: cases %s give another digest when run alone in a fresh process"%(prop,seed,bad[:10])); sys.exit(1)
PY
    echo "determinism $P seed=$S cases=$RUNS workers=1,4,16,16 + $FRESH cases each alone in a fresh process: $( [ $fail -eq 0 ] && echo identical || echo SEE ABOVE )"
  done
done
rm -rf "$WORK"
exit $fail
